#!/bin/sh
# Run every quick check under many VERIF_SEED values on the (unchanged) tree: any exit != 0 is a
# false alarm or a harness error to be looked at.   tools/seed_sweep.sh [first] [count]
HERE="$(cd "$(dirname "$0")/.." && pwd)"
FIRST="${1:-100}"; COUNT="${2:-40}"
cd "$HERE" && ./check build || exit 2
BAD=0
i=0
while [ $i -lt "$COUNT" ]; do
  seed=$((FIRST + i))
  for id in C14 C15 C16 C17 C18; do
    out=$(VERIF_SEED=$seed "$HERE/sim/target/release/hesim" $id --tier quick 2>&1); code=$?
    if [ $code -ne 0 ]; then
      BAD=$((BAD+1))
      echo "seed=$seed $id exit=$code"
      echo "$out" | grep -A2 "^VIOLATION\|harness" | cut -c1-400
    fi
  done
  i=$((i+1))
done
echo "seed sweep: $COUNT seeds from $FIRST, $BAD non-zero exits"
[ $BAD -eq 0 ]
