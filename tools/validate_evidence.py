#!/usr/bin/env python3
"""Validate MANIFEST.json and every evidence file against the schemas in /root/.vp."""
import json, sys, os, glob
import jsonschema
here = os.path.dirname(os.path.dirname(os.path.abspath(__file__)))
ok = True
def check(path, schema_path):
    global ok
    try:
        jsonschema.validate(json.load(open(path)), json.load(open(schema_path)))
        print("valid  ", path)
    except Exception as e:
        ok = False
        print("INVALID", path, str(e).splitlines()[0])
check(os.path.join(here, "MANIFEST.json"), "/root/.vp/MANIFEST.schema.json")
for f in sorted(glob.glob(os.path.join(here, "evidence", "*.json"))):
    check(f, "/root/.vp/EVIDENCE.schema.json")
man = json.load(open(os.path.join(here, "MANIFEST.json")))
props = [json.loads(l)["id"] for l in open(os.path.join(here, "properties.jsonl")) if l.strip()]
claimed = [c["property_id"] for c in man["checks"]]
na = [c["property_id"] for c in man.get("not_applicable", [])]
for p in props:
    if (p in claimed) == (p in na):
        ok = False
        print("property", p, "must be exactly one of claimed / not_applicable")
sys.exit(0 if ok else 2)
