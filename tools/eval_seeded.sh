#!/bin/sh
# tools/eval_seeded.sh <key e.g. C15-b>
# Confirms a sub-agent's seeded change in its scratch worktree (/tmp/seed-<key>):
#   (a) full existing suite passes with the change, (b) demo fails with it, (c) demo passes without it;
# then stores it as /verif/seeded/<key>/ and runs the property's quick check against it (applied to
# /repo, reverted straight afterwards).
KEY="$1"; ID="$(echo "$KEY" | cut -c1-3)"
WT="/tmp/seed-$KEY"; OUT="/tmp/seed-$KEY-out"; DEST="/verif/seeded/$KEY"
export CARGO_NET_OFFLINE=true
[ -f "$OUT/patch.diff" ] || { echo "no patch.diff for $KEY"; exit 2; }
cd "$WT" || exit 2
git checkout -q -- src 2>/dev/null
cp "$OUT/seeded_demo.rs" tests/seeded_demo.rs 2>/dev/null || { mkdir -p tests; cp "$OUT/seeded_demo.rs" tests/seeded_demo.rs; }
# (c) demo without the change
timeout 1500 cargo test --offline --test seeded_demo >"$OUT/demo_without.log" 2>&1; C=$?
git apply "$OUT/patch.diff" || { echo "$KEY: patch does not apply"; exit 2; }
# (b) demo with the change
timeout 1500 cargo test --offline --test seeded_demo >"$OUT/demo_with.log" 2>&1; B=$?
# (a) existing suite with the change (without the demo test)
mv tests/seeded_demo.rs "$OUT/.demo.tmp"
timeout 2400 cargo test --offline >"$OUT/suite_with.log" 2>&1; A=$?
mv "$OUT/.demo.tmp" tests/seeded_demo.rs
echo "$KEY: suite_with_change_exit=$A demo_with_change_exit=$B demo_without_change_exit=$C"
grep -E "^test result" "$OUT/suite_with.log" | head -3
git checkout -q -- src
rm -rf "$WT/target"
if [ "$A" = 0 ] && [ "$B" != 0 ] && [ "$C" = 0 ]; then
  mkdir -p "$DEST"
  cp "$OUT/patch.diff" "$DEST/patch.diff"; cp "$OUT/seeded_demo.rs" "$DEST/seeded_demo.rs"; cp "$OUT/meta.json" "$DEST/meta.agent.json"
  echo "$KEY: CONFIRMED"
else
  echo "$KEY: NOT CONFIRMED (need suite=0, demo_with!=0, demo_without=0)"; exit 1
fi
