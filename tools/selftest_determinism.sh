#!/bin/sh
# Determinism self-test: for every property and several VERIF_SEED values, run the (scaled-down)
# quick tier in separate processes with 16, 16 and 1 workers and compare the digests of the
# per-run event-log hashes. Any difference is a harness error (exit 2).
HERE="$(cd "$(dirname "$0")/.." && pwd)"
BIN="$HERE/sim/target/release/hesim"
DIV="${HESIM_SELFTEST_DIV:-8}"
SEEDS="${HESIM_SELFTEST_SEEDS:-20261002 1 424242}"
IDS="${*:-C14 C15 C16 C17 C18}"
FAIL=0
TMPD="$HERE/sim/target/selftest"
mkdir -p "$TMPD"
export VERIF_DIR="$TMPD"   # evidence/replays of the self-test go to a scratch place
mkdir -p "$TMPD/evidence" "$TMPD/replays"
cp "$HERE/known_findings.txt" "$TMPD/" 2>/dev/null
cp "$HERE/properties.jsonl" "$TMPD/" 2>/dev/null
for id in $IDS; do
  for seed in $SEEDS; do
    d1=$(VERIF_SEED=$seed HESIM_RUNS_DIV=$DIV HESIM_WORKERS=16 "$BIN" $id --tier quick | grep '^log_digest')
    d2=$(VERIF_SEED=$seed HESIM_RUNS_DIV=$DIV HESIM_WORKERS=16 "$BIN" $id --tier quick | grep '^log_digest')
    d3=$(VERIF_SEED=$seed HESIM_RUNS_DIV=$DIV HESIM_WORKERS=1  "$BIN" $id --tier quick | grep '^log_digest')
    d4=$(VERIF_SEED=$seed HESIM_RUNS_DIV=$DIV HESIM_WORKERS=5  "$BIN" $id --tier quick | grep '^log_digest')
    if echo "$d1$d2$d3$d4" | grep -q "nondet_runs=[1-9]"; then
      echo "not comparable $id seed=$seed  (some runs lost the baton to OS-level blocking: $d1 | $d2 | $d3 | $d4)"
    elif [ -n "$d1" ] && [ "$d1" = "$d2" ] && [ "$d1" = "$d3" ] && [ "$d1" = "$d4" ]; then
      echo "deterministic  $id seed=$seed  $d1"
    else
      echo "DIFFERS        $id seed=$seed  [$d1] [$d2] [$d3] [$d4]"
      FAIL=2
    fi
  done
done
exit $FAIL
