#!/bin/sh
# Run every thorough tier once (build once, then the binary directly, so that a later temporary
# patch of /repo's working tree by ./check sensitivity cannot leak into this run).
#   tools/thorough_all.sh [ID...]
HERE="$(cd "$(dirname "$0")/.." && pwd)"
cd "$HERE" && ./check build || exit 2
[ $# -gt 0 ] || set -- C14 C15 C16 C18 C17
BAD=0
for id in "$@"; do
  start=$(date +%s)
  VERIF_DIR="$HERE" "$HERE/sim/target/release/hesim" "$id" --tier thorough > "$HERE/sim/target/thorough-$id.log" 2>&1; code=$?
  end=$(date +%s)
  echo "== $id exit=$code wall=$((end-start))s"
  tail -2 "$HERE/sim/target/thorough-$id.log" | cut -c1-300
  [ $code -eq 0 ] || { BAD=1; grep -A2 "^VIOLATION\|harness" "$HERE/sim/target/thorough-$id.log" | head -20 | cut -c1-400; }
done
exit $BAD
