//! Every serializable object type behind one enum: serialize / deserialize / announced size /
//! expected restored form / field-wise equality / generation. Shared by C14 and C15.

use crate::gen::{self, World, CKKS};
use crate::prng::Prng;
use heathcliff::app::matmul::cipher3d::{Cipher3d, Plain3d};
use heathcliff::app::matmul::{Cipher1d, Cipher2d, Plain1d, Plain2d};
use heathcliff::*;
use std::io::{self, Read, Write};

#[derive(Clone)]
pub enum Obj {
    U64(u64),
    Usize(usize),
    U8(u8),
    Bool(bool),
    F64(f64),
    Modulus(u64),
    VecU64(Vec<u64>),
    VecBool(Vec<bool>),
    VecU8(Vec<u8>),
    VecVecBool(Vec<Vec<bool>>),
    VecModulus(Vec<u64>),
    Scheme(u8),
    Params(EncryptionParameters),
    ParmsId(ParmsID),
    Plain(Plaintext),
    Sk(SecretKey),
    Ct(Ciphertext),
    CtFull(Ciphertext),
    CtTerms(Ciphertext, Vec<usize>),
    Pk(PublicKey),
    KSwitch(KSwitchKeys),
    Relin(RelinKeys),
    Galois(GaloisKeys),
    Poly(Vec<u64>, ParmsID),
    Plain1d(Plain1d),
    Plain2d(Plain2d),
    Plain3d(Plain3d),
    Cipher1d(Cipher1d),
    Cipher2d(Cipher2d),
    Cipher3d(Cipher3d),
    Cipher1dTerms(Cipher1d, Vec<usize>),
    Cipher2dTerms(Cipher2d, Vec<usize>),
    Cipher3dTerms(Cipher3d, Vec<usize>),
}

/// What the receiver has to know to deserialize: the type and (for the terms format) the term list.
#[derive(Clone, Debug, PartialEq)]
pub enum Tag {
    U64,
    Usize,
    U8,
    Bool,
    F64,
    Modulus,
    VecU64,
    VecBool,
    VecU8,
    VecVecBool,
    VecModulus,
    Scheme,
    Params,
    ParmsId,
    Plain,
    Sk,
    Ct,
    CtFull,
    CtTerms(Vec<usize>),
    Pk,
    KSwitch,
    Relin,
    Galois,
    Poly,
    Plain1d,
    Plain2d,
    Plain3d,
    Cipher1d,
    Cipher2d,
    Cipher3d,
    Cipher1dTerms(Vec<usize>),
    Cipher2dTerms(Vec<usize>),
    Cipher3dTerms(Vec<usize>),
}

impl Tag {
    pub fn name(&self) -> &'static str {
        match self {
            Tag::U64 => "u64",
            Tag::Usize => "usize",
            Tag::U8 => "u8",
            Tag::Bool => "bool",
            Tag::F64 => "f64",
            Tag::Modulus => "Modulus",
            Tag::VecU64 => "Vec<u64>",
            Tag::VecBool => "Vec<bool>",
            Tag::VecU8 => "Vec<u8>",
            Tag::VecVecBool => "Vec<Vec<bool>>",
            Tag::VecModulus => "Vec<Modulus>",
            Tag::Scheme => "SchemeType",
            Tag::Params => "EncryptionParameters",
            Tag::ParmsId => "ParmsID",
            Tag::Plain => "Plaintext",
            Tag::Sk => "SecretKey",
            Tag::Ct => "Ciphertext",
            Tag::CtFull => "Ciphertext.full",
            Tag::CtTerms(_) => "Ciphertext.terms",
            Tag::Pk => "PublicKey",
            Tag::KSwitch => "KSwitchKeys",
            Tag::Relin => "RelinKeys",
            Tag::Galois => "GaloisKeys",
            Tag::Poly => "Polynomial",
            Tag::Plain1d => "Plain1d",
            Tag::Plain2d => "Plain2d",
            Tag::Plain3d => "Plain3d",
            Tag::Cipher1d => "Cipher1d",
            Tag::Cipher2d => "Cipher2d",
            Tag::Cipher3d => "Cipher3d",
            Tag::Cipher1dTerms(_) => "Cipher1d.terms",
            Tag::Cipher2dTerms(_) => "Cipher2d.terms",
            Tag::Cipher3dTerms(_) => "Cipher3d.terms",
        }
    }
}

fn mods(v: &[u64]) -> Vec<Modulus> {
    v.iter().map(|&x| Modulus::new(x)).collect()
}

fn scheme_from(code: u8) -> SchemeType {
    gen::scheme_of(code)
}

impl Obj {
    pub fn tag(&self) -> Tag {
        match self {
            Obj::U64(_) => Tag::U64,
            Obj::Usize(_) => Tag::Usize,
            Obj::U8(_) => Tag::U8,
            Obj::Bool(_) => Tag::Bool,
            Obj::F64(_) => Tag::F64,
            Obj::Modulus(_) => Tag::Modulus,
            Obj::VecU64(_) => Tag::VecU64,
            Obj::VecBool(_) => Tag::VecBool,
            Obj::VecU8(_) => Tag::VecU8,
            Obj::VecVecBool(_) => Tag::VecVecBool,
            Obj::VecModulus(_) => Tag::VecModulus,
            Obj::Scheme(_) => Tag::Scheme,
            Obj::Params(_) => Tag::Params,
            Obj::ParmsId(_) => Tag::ParmsId,
            Obj::Plain(_) => Tag::Plain,
            Obj::Sk(_) => Tag::Sk,
            Obj::Ct(_) => Tag::Ct,
            Obj::CtFull(_) => Tag::CtFull,
            Obj::CtTerms(_, t) => Tag::CtTerms(t.clone()),
            Obj::Pk(_) => Tag::Pk,
            Obj::KSwitch(_) => Tag::KSwitch,
            Obj::Relin(_) => Tag::Relin,
            Obj::Galois(_) => Tag::Galois,
            Obj::Poly(_, _) => Tag::Poly,
            Obj::Plain1d(_) => Tag::Plain1d,
            Obj::Plain2d(_) => Tag::Plain2d,
            Obj::Plain3d(_) => Tag::Plain3d,
            Obj::Cipher1d(_) => Tag::Cipher1d,
            Obj::Cipher2d(_) => Tag::Cipher2d,
            Obj::Cipher3d(_) => Tag::Cipher3d,
            Obj::Cipher1dTerms(_, t) => Tag::Cipher1dTerms(t.clone()),
            Obj::Cipher2dTerms(_, t) => Tag::Cipher2dTerms(t.clone()),
            Obj::Cipher3dTerms(_, t) => Tag::Cipher3dTerms(t.clone()),
        }
    }

    pub fn ser<W: Write>(&self, ctx: &HeContext, w: &mut W) -> io::Result<usize> {
        match self {
            Obj::U64(v) => v.serialize(w),
            Obj::Usize(v) => v.serialize(w),
            Obj::U8(v) => v.serialize(w),
            Obj::Bool(v) => v.serialize(w),
            Obj::F64(v) => v.serialize(w),
            Obj::Modulus(v) => Modulus::new(*v).serialize(w),
            Obj::VecU64(v) => v.serialize(w),
            Obj::VecBool(v) => v.serialize(w),
            Obj::VecU8(v) => v.serialize(w),
            Obj::VecVecBool(v) => v.serialize(w),
            Obj::VecModulus(v) => mods(v).serialize(w),
            Obj::Scheme(c) => scheme_from(*c).serialize(w),
            Obj::Params(p) => p.serialize(w),
            Obj::ParmsId(p) => p.serialize(w),
            Obj::Plain(p) => p.serialize(w),
            Obj::Sk(k) => k.serialize(w),
            Obj::Ct(c) => c.serialize(ctx, w),
            Obj::CtFull(c) => c.serialize_full(ctx, w),
            Obj::CtTerms(c, t) => c.serialize_terms(ctx, t, w),
            Obj::Pk(k) => k.serialize(ctx, w),
            Obj::KSwitch(k) => k.serialize(ctx, w),
            Obj::Relin(k) => k.serialize(ctx, w),
            Obj::Galois(k) => k.serialize(ctx, w),
            Obj::Poly(d, id) => PolynomialSerializer::serialize_polynomial(ctx, w, d, *id),
            Obj::Plain1d(p) => p.serialize(w),
            Obj::Plain2d(p) => p.serialize(w),
            Obj::Plain3d(p) => p.serialize(w),
            Obj::Cipher1d(c) => c.serialize(ctx, w),
            Obj::Cipher2d(c) => c.serialize(ctx, w),
            Obj::Cipher3d(c) => c.serialize(ctx, w),
            Obj::Cipher1dTerms(c, t) => c.serialize_terms(ctx, t, w),
            Obj::Cipher2dTerms(c, t) => c.serialize_terms(ctx, t, w),
            Obj::Cipher3dTerms(c, t) => c.serialize_terms(ctx, t, w),
        }
    }

    pub fn de<R: Read>(tag: &Tag, ctx: &HeContext, r: &mut R) -> io::Result<Obj> {
        Ok(match tag {
            Tag::U64 => Obj::U64(u64::deserialize(r)?),
            Tag::Usize => Obj::Usize(usize::deserialize(r)?),
            Tag::U8 => Obj::U8(u8::deserialize(r)?),
            Tag::Bool => Obj::Bool(bool::deserialize(r)?),
            Tag::F64 => Obj::F64(f64::deserialize(r)?),
            Tag::Modulus => Obj::Modulus(Modulus::deserialize(r)?.value()),
            Tag::VecU64 => Obj::VecU64(Vec::<u64>::deserialize(r)?),
            Tag::VecBool => Obj::VecBool(Vec::<bool>::deserialize(r)?),
            Tag::VecU8 => Obj::VecU8(Vec::<u8>::deserialize(r)?),
            Tag::VecVecBool => Obj::VecVecBool(Vec::<Vec<bool>>::deserialize(r)?),
            Tag::VecModulus => Obj::VecModulus(Vec::<Modulus>::deserialize(r)?.iter().map(|m| m.value()).collect()),
            Tag::Scheme => Obj::Scheme(SchemeType::deserialize(r)? as u8),
            Tag::Params => Obj::Params(EncryptionParameters::deserialize(r)?),
            Tag::ParmsId => Obj::ParmsId(ParmsID::deserialize(r)?),
            Tag::Plain => Obj::Plain(Plaintext::deserialize(r)?),
            Tag::Sk => Obj::Sk(SecretKey::deserialize(r)?),
            Tag::Ct => Obj::Ct(Ciphertext::deserialize(ctx, r)?),
            Tag::CtFull => Obj::CtFull(Ciphertext::deserialize_full(ctx, r)?),
            Tag::CtTerms(t) => Obj::CtTerms(Ciphertext::deserialize_terms(ctx, t, r)?, t.clone()),
            Tag::Pk => Obj::Pk(PublicKey::deserialize(ctx, r)?),
            Tag::KSwitch => Obj::KSwitch(KSwitchKeys::deserialize(ctx, r)?),
            Tag::Relin => Obj::Relin(RelinKeys::deserialize(ctx, r)?),
            Tag::Galois => Obj::Galois(GaloisKeys::deserialize(ctx, r)?),
            Tag::Poly => {
                // the parms_id is the first field of the encoding; peek it by reading through a tee
                let mut head = [0u8; 32];
                let mut tee = Tee { inner: r, copy: Vec::new() };
                let data = PolynomialSerializer::deserialize_polynomial(ctx, &mut tee)?;
                let n = tee.copy.len().min(32);
                head[..n].copy_from_slice(&tee.copy[..n]);
                let mut id = [0u64; 4];
                for i in 0..4 {
                    id[i] = u64::from_le_bytes(head[8 * i..8 * i + 8].try_into().unwrap());
                }
                Obj::Poly(data, id)
            }
            Tag::Plain1d => Obj::Plain1d(Plain1d::deserialize(r)?),
            Tag::Plain2d => Obj::Plain2d(Plain2d::deserialize(r)?),
            Tag::Plain3d => Obj::Plain3d(Plain3d::deserialize(r)?),
            Tag::Cipher1d => Obj::Cipher1d(Cipher1d::deserialize(ctx, r)?),
            Tag::Cipher2d => Obj::Cipher2d(Cipher2d::deserialize(ctx, r)?),
            Tag::Cipher3d => Obj::Cipher3d(Cipher3d::deserialize(ctx, r)?),
            Tag::Cipher1dTerms(t) => Obj::Cipher1dTerms(Cipher1d::deserialize_terms(ctx, t, r)?, t.clone()),
            Tag::Cipher2dTerms(t) => Obj::Cipher2dTerms(Cipher2d::deserialize_terms(ctx, t, r)?, t.clone()),
            Tag::Cipher3dTerms(t) => Obj::Cipher3dTerms(Cipher3d::deserialize_terms(ctx, t, r)?, t.clone()),
        })
    }

    /// The size the API announces for this encoding.
    pub fn announced_size(&self, ctx: &HeContext) -> usize {
        match self {
            Obj::U64(v) => v.serialized_size(),
            Obj::Usize(v) => v.serialized_size(),
            Obj::U8(v) => v.serialized_size(),
            Obj::Bool(v) => v.serialized_size(),
            Obj::F64(v) => v.serialized_size(),
            Obj::Modulus(v) => Modulus::new(*v).serialized_size(),
            Obj::VecU64(v) => v.serialized_size(),
            Obj::VecBool(v) => v.serialized_size(),
            Obj::VecU8(v) => v.serialized_size(),
            Obj::VecVecBool(v) => v.serialized_size(),
            Obj::VecModulus(v) => mods(v).serialized_size(),
            Obj::Scheme(c) => scheme_from(*c).serialized_size(),
            Obj::Params(p) => p.serialized_size(),
            Obj::ParmsId(p) => p.serialized_size(),
            Obj::Plain(p) => p.serialized_size(),
            Obj::Sk(k) => k.serialized_size(),
            Obj::Ct(c) => c.serialized_size(ctx),
            Obj::CtFull(c) => c.serialized_full_size(ctx),
            Obj::CtTerms(c, t) => c.serialized_terms_size(ctx, t.len()),
            Obj::Pk(k) => k.serialized_size(ctx),
            Obj::KSwitch(k) => k.serialized_size(ctx),
            Obj::Relin(k) => k.serialized_size(ctx),
            Obj::Galois(k) => k.serialized_size(ctx),
            Obj::Poly(_, id) => (PolynomialSerializer {}).serialized_polynomial_size(ctx, *id),
            Obj::Plain1d(p) => p.serialized_size(),
            Obj::Plain2d(p) => p.serialized_size(),
            Obj::Plain3d(p) => p.serialized_size(),
            Obj::Cipher1d(c) => c.serialized_size(ctx),
            Obj::Cipher2d(c) => c.serialized_size(ctx),
            Obj::Cipher3d(c) => c.serialized_size(ctx),
            Obj::Cipher1dTerms(c, t) => c.serialized_terms_size(ctx, t.len()),
            Obj::Cipher2dTerms(c, t) => c.serialized_terms_size(ctx, t.len()),
            Obj::Cipher3dTerms(c, t) => c.serialized_terms_size(ctx, t.len()),
        }
    }

    /// The object a correct deserialization must produce: seeds expanded, terms format masked,
    /// polynomial padded. Uses only `expand_seed` and the public NTT of the library.
    pub fn expected_restored(&self, ctx: &HeContext) -> Obj {
        match self {
            Obj::Ct(c) => Obj::Ct(expand_ct(c, ctx)),
            Obj::CtFull(c) => Obj::CtFull(expand_ct(c, ctx)),
            Obj::CtTerms(c, t) => Obj::CtTerms(mask_terms(&expand_ct(c, ctx), t, ctx), t.clone()),
            Obj::Pk(k) => Obj::Pk(PublicKey::new(expand_ct(k.as_ciphertext(), ctx))),
            Obj::KSwitch(k) => Obj::KSwitch(expand_ks(k, ctx)),
            Obj::Relin(k) => Obj::Relin(RelinKeys::new(expand_ks(k.as_kswitch_keys(), ctx))),
            Obj::Galois(k) => Obj::Galois(GaloisKeys::new(expand_ks(k.as_kswitch_keys(), ctx))),
            Obj::Poly(d, id) => {
                if *id == PARMS_ID_ZERO {
                    let n = ctx.first_context_data().unwrap().parms().poly_modulus_degree();
                    let mut v = d.clone();
                    v.resize(n, 0);
                    Obj::Poly(v, *id)
                } else {
                    self.clone()
                }
            }
            Obj::Cipher1d(c) => Obj::Cipher1d(map1(c, &|x| expand_ct(x, ctx))),
            Obj::Cipher2d(c) => Obj::Cipher2d(map2(c, &|x| expand_ct(x, ctx))),
            Obj::Cipher3d(c) => Obj::Cipher3d(map3(c, &|x| expand_ct(x, ctx))),
            Obj::Cipher1dTerms(c, t) => Obj::Cipher1dTerms(map1(c, &|x| mask_terms(&expand_ct(x, ctx), t, ctx)), t.clone()),
            Obj::Cipher2dTerms(c, t) => Obj::Cipher2dTerms(map2(c, &|x| mask_terms(&expand_ct(x, ctx), t, ctx)), t.clone()),
            Obj::Cipher3dTerms(c, t) => Obj::Cipher3dTerms(map3(c, &|x| mask_terms(&expand_ct(x, ctx), t, ctx)), t.clone()),
            other => other.clone(),
        }
    }

    /// Does this object carry a seed anywhere?
    pub fn seeded(&self) -> bool {
        let mut any = false;
        self.for_each_ct(&mut |c| any |= c.contains_seed());
        any
    }

    fn for_each_ct(&self, f: &mut dyn FnMut(&Ciphertext)) {
        match self {
            Obj::Ct(c) | Obj::CtFull(c) | Obj::CtTerms(c, _) => f(c),
            Obj::Pk(k) => f(k.as_ciphertext()),
            Obj::KSwitch(k) => k.data().iter().flatten().for_each(|p| f(p.as_ciphertext())),
            Obj::Relin(k) => k.as_kswitch_keys().data().iter().flatten().for_each(|p| f(p.as_ciphertext())),
            Obj::Galois(k) => k.as_kswitch_keys().data().iter().flatten().for_each(|p| f(p.as_ciphertext())),
            Obj::Cipher1d(c) | Obj::Cipher1dTerms(c, _) => c.data.iter().for_each(|x| f(x)),
            Obj::Cipher2d(c) | Obj::Cipher2dTerms(c, _) => c.data.iter().flat_map(|a| a.data.iter()).for_each(|x| f(x)),
            Obj::Cipher3d(c) | Obj::Cipher3dTerms(c, _) => {
                c.data.iter().flat_map(|a| a.data.iter()).flat_map(|a| a.data.iter()).for_each(|x| f(x))
            }
            _ => {}
        }
    }

    /// Field-wise equality; Err describes the first difference.
    pub fn same(&self, other: &Obj) -> Result<(), String> {
        fn ne<T: std::fmt::Debug>(what: &str, a: T, b: T) -> Result<(), String> {
            Err(format!("{}: expected {:?}, got {:?}", what, a, b))
        }
        match (self, other) {
            (Obj::U64(a), Obj::U64(b)) => if a == b { Ok(()) } else { ne("u64", a, b) },
            (Obj::Usize(a), Obj::Usize(b)) => if a == b { Ok(()) } else { ne("usize", a, b) },
            (Obj::U8(a), Obj::U8(b)) => if a == b { Ok(()) } else { ne("u8", a, b) },
            (Obj::Bool(a), Obj::Bool(b)) => if a == b { Ok(()) } else { ne("bool", a, b) },
            (Obj::F64(a), Obj::F64(b)) => if a.to_bits() == b.to_bits() { Ok(()) } else { ne("f64", a, b) },
            (Obj::Modulus(a), Obj::Modulus(b)) => if a == b { Ok(()) } else { ne("modulus", a, b) },
            (Obj::VecU64(a), Obj::VecU64(b)) => if a == b { Ok(()) } else { ne("vec<u64>", a, b) },
            (Obj::VecBool(a), Obj::VecBool(b)) => if a == b { Ok(()) } else { ne("vec<bool>", a, b) },
            (Obj::VecU8(a), Obj::VecU8(b)) => if a == b { Ok(()) } else { ne("vec<u8>", a, b) },
            (Obj::VecVecBool(a), Obj::VecVecBool(b)) => if a == b { Ok(()) } else { ne("vec<vec<bool>>", a, b) },
            (Obj::VecModulus(a), Obj::VecModulus(b)) => if a == b { Ok(()) } else { ne("vec<modulus>", a, b) },
            (Obj::Scheme(a), Obj::Scheme(b)) => if a == b { Ok(()) } else { ne("scheme", a, b) },
            (Obj::Params(a), Obj::Params(b)) => params_same(a, b),
            (Obj::ParmsId(a), Obj::ParmsId(b)) => if a == b { Ok(()) } else { ne("parms_id", a, b) },
            (Obj::Plain(a), Obj::Plain(b)) => plain_same(a, b),
            (Obj::Sk(a), Obj::Sk(b)) => plain_same(a.as_plaintext(), b.as_plaintext()),
            (Obj::Ct(a), Obj::Ct(b)) | (Obj::CtFull(a), Obj::CtFull(b)) => ct_same(a, b),
            (Obj::CtTerms(a, _), Obj::CtTerms(b, _)) => ct_same(a, b),
            (Obj::Pk(a), Obj::Pk(b)) => ct_same(a.as_ciphertext(), b.as_ciphertext()),
            (Obj::KSwitch(a), Obj::KSwitch(b)) => ks_same(a, b),
            (Obj::Relin(a), Obj::Relin(b)) => ks_same(a.as_kswitch_keys(), b.as_kswitch_keys()),
            (Obj::Galois(a), Obj::Galois(b)) => ks_same(a.as_kswitch_keys(), b.as_kswitch_keys()),
            (Obj::Poly(a, ia), Obj::Poly(b, ib)) => {
                if ia != ib { return ne("poly parms_id", ia, ib); }
                if a == b { Ok(()) } else { Err(format!("polynomial data differs (len {} vs {})", a.len(), b.len())) }
            }
            (Obj::Plain1d(a), Obj::Plain1d(b)) => p1_same(a, b),
            (Obj::Plain2d(a), Obj::Plain2d(b)) => {
                if a.data.len() != b.data.len() { return ne("Plain2d len", a.data.len(), b.data.len()); }
                a.data.iter().zip(b.data.iter()).try_for_each(|(x, y)| p1_same(x, y))
            }
            (Obj::Plain3d(a), Obj::Plain3d(b)) => {
                if a.data.len() != b.data.len() { return ne("Plain3d len", a.data.len(), b.data.len()); }
                for (x, y) in a.data.iter().zip(b.data.iter()) {
                    if x.data.len() != y.data.len() { return ne("Plain3d inner len", x.data.len(), y.data.len()); }
                    x.data.iter().zip(y.data.iter()).try_for_each(|(p, q)| p1_same(p, q))?;
                }
                Ok(())
            }
            (Obj::Cipher1d(a), Obj::Cipher1d(b)) | (Obj::Cipher1dTerms(a, _), Obj::Cipher1dTerms(b, _)) => c1_same(a, b),
            (Obj::Cipher2d(a), Obj::Cipher2d(b)) | (Obj::Cipher2dTerms(a, _), Obj::Cipher2dTerms(b, _)) => c2_same(a, b),
            (Obj::Cipher3d(a), Obj::Cipher3d(b)) | (Obj::Cipher3dTerms(a, _), Obj::Cipher3dTerms(b, _)) => {
                if a.data.len() != b.data.len() { return ne("Cipher3d len", a.data.len(), b.data.len()); }
                a.data.iter().zip(b.data.iter()).try_for_each(|(x, y)| c2_same(x, y))
            }
            _ => Err("different object types".into()),
        }
    }

    /// Class string for distinct counting: type + shape (+ seeded).
    pub fn class(&self) -> String {
        let mut s = self.tag().name().to_string();
        match self {
            Obj::Ct(c) | Obj::CtFull(c) | Obj::CtTerms(c, _) => {
                s += &format!("/s{}/k{}/{}{}", c.size(), c.coeff_modulus_size(), if c.is_ntt_form() { "ntt" } else { "coef" },
                    if c.correction_factor() != 1 { "/cf" } else { "" });
            }
            Obj::Pk(k) => s += &format!("/k{}", k.as_ciphertext().coeff_modulus_size()),
            Obj::KSwitch(k) => s += &format!("/{}of{}", k.len(), k.data().len()),
            Obj::Relin(k) => s += &format!("/{}of{}", k.as_kswitch_keys().len(), k.as_kswitch_keys().data().len()),
            Obj::Galois(k) => s += &format!("/{}", if k.as_kswitch_keys().len() == 0 { "none" } else if k.as_kswitch_keys().len() < 3 { "few" } else { "many" }),
            Obj::Poly(_, id) => s += if *id == PARMS_ID_ZERO { "/plain" } else { "/rns" },
            Obj::Plain(p) => s += if p.is_ntt_form() { "/ntt" } else { "/coef" },
            Obj::Plain1d(p) => s += &format!("/{}", p.data.len().min(2)),
            Obj::Plain2d(p) => s += &format!("/{}", p.data.len().min(2)),
            Obj::Plain3d(p) => s += &format!("/{}", p.data.len().min(2)),
            Obj::Cipher1d(c) | Obj::Cipher1dTerms(c, _) => s += &format!("/{}", c.data.len().min(2)),
            Obj::Cipher2d(c) | Obj::Cipher2dTerms(c, _) => s += &format!("/{}", c.data.len().min(2)),
            Obj::Cipher3d(c) | Obj::Cipher3dTerms(c, _) => s += &format!("/{}", c.data.len().min(2)),
            _ => {}
        }
        match self {
            Obj::CtTerms(_, t) | Obj::Cipher1dTerms(_, t) | Obj::Cipher2dTerms(_, t) | Obj::Cipher3dTerms(_, t) => {
                s += &format!("/t{}", match t.len() { 0 => "0", 1 => "1", _ => "n" });
            }
            _ => {}
        }
        if self.seeded() {
            s += "/seeded";
        }
        s
    }
}

/// Reader adaptor that records what was read (used to recover the parms_id of a polynomial).
struct Tee<'a, R: Read> {
    inner: &'a mut R,
    copy: Vec<u8>,
}
impl<'a, R: Read> Read for Tee<'a, R> {
    fn read(&mut self, buf: &mut [u8]) -> io::Result<usize> {
        let n = self.inner.read(buf)?;
        if self.copy.len() < 64 {
            self.copy.extend_from_slice(&buf[..n]);
        }
        Ok(n)
    }
}

pub fn expand_ct(c: &Ciphertext, ctx: &HeContext) -> Ciphertext {
    if c.contains_seed() {
        c.clone().expand_seed(ctx)
    } else {
        c.clone()
    }
}

pub fn expand_ks(k: &KSwitchKeys, ctx: &HeContext) -> KSwitchKeys {
    let keys = k
        .data()
        .iter()
        .map(|v| v.iter().map(|p| PublicKey::new(expand_ct(p.as_ciphertext(), ctx))).collect::<Vec<_>>())
        .collect::<Vec<_>>();
    KSwitchKeys::from_members(*k.parms_id(), keys)
}

/// Expected result of the selected-terms format: coefficient-domain c0 restricted to `terms`.
pub fn mask_terms(c: &Ciphertext, terms: &[usize], ctx: &HeContext) -> Ciphertext {
    let cd = ctx.get_context_data(c.parms_id()).unwrap();
    let n = c.poly_modulus_degree();
    let k = c.coeff_modulus_size();
    let mut out = c.clone();
    for j in 0..k {
        let comp = out.poly_component_mut(0, j);
        if c.is_ntt_form() {
            cd.small_ntt_tables()[j].inverse_ntt_negacyclic_harvey(comp);
        }
        let mut masked = vec![0u64; n];
        for &t in terms {
            masked[t] = comp[t];
        }
        comp.copy_from_slice(&masked);
        if c.is_ntt_form() {
            cd.small_ntt_tables()[j].ntt_negacyclic_harvey(comp);
        }
    }
    out
}

fn map1(c: &Cipher1d, f: &dyn Fn(&Ciphertext) -> Ciphertext) -> Cipher1d {
    Cipher1d::new(c.data.iter().map(|x| f(x)).collect())
}
fn map2(c: &Cipher2d, f: &dyn Fn(&Ciphertext) -> Ciphertext) -> Cipher2d {
    Cipher2d::new_1ds(c.data.iter().map(|x| map1(x, f)).collect())
}
fn map3(c: &Cipher3d, f: &dyn Fn(&Ciphertext) -> Ciphertext) -> Cipher3d {
    Cipher3d::new_2ds(c.data.iter().map(|x| map2(x, f)).collect())
}

fn params_same(a: &EncryptionParameters, b: &EncryptionParameters) -> Result<(), String> {
    let fa = (a.scheme() as u8, a.poly_modulus_degree(), a.coeff_modulus().iter().map(|m| m.value()).collect::<Vec<_>>(),
        a.plain_modulus().value(), a.use_special_prime_for_encryption(), *a.parms_id());
    let fb = (b.scheme() as u8, b.poly_modulus_degree(), b.coeff_modulus().iter().map(|m| m.value()).collect::<Vec<_>>(),
        b.plain_modulus().value(), b.use_special_prime_for_encryption(), *b.parms_id());
    if fa == fb { Ok(()) } else { Err(format!("parameters differ: expected {:?}, got {:?}", fa, fb)) }
}

fn plain_same(a: &Plaintext, b: &Plaintext) -> Result<(), String> {
    if a.coeff_count() != b.coeff_count() { return Err(format!("plaintext coeff_count: expected {}, got {}", a.coeff_count(), b.coeff_count())); }
    if a.parms_id() != b.parms_id() { return Err(format!("plaintext parms_id: expected {:?}, got {:?}", a.parms_id(), b.parms_id())); }
    if a.scale().to_bits() != b.scale().to_bits() { return Err(format!("plaintext scale: expected {}, got {}", a.scale(), b.scale())); }
    if a.data() != b.data() { return Err("plaintext data differs".into()); }
    Ok(())
}

pub fn ct_same(a: &Ciphertext, b: &Ciphertext) -> Result<(), String> {
    if a.size() != b.size() { return Err(format!("ciphertext size: expected {}, got {}", a.size(), b.size())); }
    if a.coeff_modulus_size() != b.coeff_modulus_size() { return Err(format!("coeff_modulus_size: expected {}, got {}", a.coeff_modulus_size(), b.coeff_modulus_size())); }
    if a.poly_modulus_degree() != b.poly_modulus_degree() { return Err("poly_modulus_degree differs".into()); }
    if a.parms_id() != b.parms_id() { return Err("ciphertext parms_id differs".into()); }
    if a.scale().to_bits() != b.scale().to_bits() { return Err(format!("ciphertext scale: expected {}, got {}", a.scale(), b.scale())); }
    if a.is_ntt_form() != b.is_ntt_form() { return Err(format!("is_ntt_form: expected {}, got {}", a.is_ntt_form(), b.is_ntt_form())); }
    if a.correction_factor() != b.correction_factor() { return Err(format!("correction_factor: expected {}, got {}", a.correction_factor(), b.correction_factor())); }
    if a.data().len() != b.data().len() { return Err(format!("data length: expected {}, got {}", a.data().len(), b.data().len())); }
    if let Some(i) = (0..a.data().len()).find(|&i| a.data()[i] != b.data()[i]) {
        let per = a.poly_modulus_degree() * a.coeff_modulus_size();
        return Err(format!("ciphertext data differs first at word {} (poly {}, component {}, coeff {}): expected {}, got {}",
            i, i / per.max(1), (i % per.max(1)) / a.poly_modulus_degree().max(1), i % a.poly_modulus_degree().max(1), a.data()[i], b.data()[i]));
    }
    Ok(())
}

fn ks_same(a: &KSwitchKeys, b: &KSwitchKeys) -> Result<(), String> {
    if a.parms_id() != b.parms_id() { return Err("kswitch parms_id differs".into()); }
    if a.data().len() != b.data().len() { return Err(format!("kswitch outer len: expected {}, got {}", a.data().len(), b.data().len())); }
    for (i, (x, y)) in a.data().iter().zip(b.data().iter()).enumerate() {
        if x.len() != y.len() { return Err(format!("kswitch[{}] len: expected {}, got {}", i, x.len(), y.len())); }
        for (j, (p, q)) in x.iter().zip(y.iter()).enumerate() {
            ct_same(p.as_ciphertext(), q.as_ciphertext()).map_err(|e| format!("kswitch[{}][{}]: {}", i, j, e))?;
        }
    }
    Ok(())
}

fn p1_same(a: &Plain1d, b: &Plain1d) -> Result<(), String> {
    if a.data.len() != b.data.len() { return Err(format!("Plain1d len: expected {}, got {}", a.data.len(), b.data.len())); }
    a.data.iter().zip(b.data.iter()).try_for_each(|(x, y)| plain_same(x, y))
}
fn c1_same(a: &Cipher1d, b: &Cipher1d) -> Result<(), String> {
    if a.data.len() != b.data.len() { return Err(format!("Cipher1d len: expected {}, got {}", a.data.len(), b.data.len())); }
    a.data.iter().zip(b.data.iter()).enumerate().try_for_each(|(i, (x, y))| ct_same(x, y).map_err(|e| format!("[{}] {}", i, e)))
}
fn c2_same(a: &Cipher2d, b: &Cipher2d) -> Result<(), String> {
    if a.data.len() != b.data.len() { return Err(format!("Cipher2d len: expected {}, got {}", a.data.len(), b.data.len())); }
    a.data.iter().zip(b.data.iter()).try_for_each(|(x, y)| c1_same(x, y))
}

// ---------------------------------------------------------------------------------------
// Generation

/// A random ciphertext from one of several sources.
pub fn gen_cipher(rng: &mut Prng, w: &World, allow_seed: bool, max_size: usize) -> Ciphertext {
    let levels = w.data_levels();
    match rng.below(if allow_seed { 6 } else { 4 }) {
        0 => {
            let p = w.random_plain(rng);
            w.encryptor.encrypt_new(&p)
        }
        1 => {
            // symmetric, expanded
            let p = w.random_plain(rng);
            let mut c = Ciphertext::new();
            w.encryptor.encrypt_symmetric(&p, &mut c);
            c
        }
        2 | 3 => {
            let size = rng.range(2, max_size.max(2));
            let level = *rng.pick(&levels);
            let ntt = if rng.chance(1, 5) { !w.default_ntt() } else { w.default_ntt() };
            w.synthetic_cipher(rng, size, level, ntt)
        }
        4 => {
            // symmetric with seed
            let p = w.random_plain(rng);
            let mut c = w.encryptor.encrypt_symmetric_new(&p);
            // one in four: the object that held the seeded encryption is used again as the destination
            // of another encryption (same shape): what it held before must leave no trace
            if rng.chance(1, 4) {
                let p2 = w.random_plain(rng);
                if rng.coin() {
                    w.encryptor.encrypt(&p2, &mut c);
                } else {
                    w.encryptor.encrypt_symmetric(&p2, &mut c);
                }
            }
            c
        }
        _ => {
            // seeded zero encryption at some data level
            let level = *rng.pick(&levels);
            w.encryptor.encrypt_zero_symmetric_new_at(&level)
        }
    }
}

pub fn gen_terms(rng: &mut Prng, n: usize) -> Vec<usize> {
    match rng.below(8) {
        0 => vec![],
        1 => vec![rng.usize_below(n)],
        2 => (0..n).collect(),
        3 => vec![0, n - 1],
        // every coefficient, but not in ascending order (a full list is where "select all" shortcuts live)
        4 => {
            let mut all: Vec<usize> = (0..n).collect();
            match rng.below(3) {
                0 => all.reverse(),
                1 => all.rotate_left(rng.range(1, n - 1)),
                _ => rng.shuffle(&mut all),
            }
            all
        }
        _ => {
            let mut all: Vec<usize> = (0..n).collect();
            rng.shuffle(&mut all);
            let k = rng.range(1, n);
            all.truncate(k);
            if rng.coin() {
                all.sort();
            }
            all
        }
    }
}

fn gen_plain_any(rng: &mut Prng, w: &World) -> Plaintext {
    // a freshly constructed plaintext (no coefficients at all) is a legitimate object too
    if rng.chance(1, 16) {
        return Plaintext::new();
    }
    if w.spec.scheme == CKKS {
        let level = *rng.pick(&w.data_levels());
        w.random_ckks_plain(rng, Some(level))
    } else if rng.chance(1, 4) {
        // NTT-form plaintext (as produced by transform_plain_to_ntt): canonical residues at a level
        let level = *rng.pick(&w.data_levels());
        let moduli = w.level_moduli(&level);
        let mut p = Plaintext::new();
        p.resize(moduli.len() * w.spec.n);
        for (j, &m) in moduli.iter().enumerate() {
            for i in 0..w.spec.n {
                p.data_mut()[j * w.spec.n + i] = rng.below(m);
            }
        }
        p.set_parms_id(level);
        p
    } else {
        w.random_plain(rng)
    }
}

fn gen_c1(rng: &mut Prng, w: &World, terms: bool) -> Cipher1d {
    let k = rng.range(0, 3);
    Cipher1d::new((0..k).map(|_| gen_cipher(rng, w, true, if terms { 3 } else { 4 })).collect())
}
fn gen_c2(rng: &mut Prng, w: &World, terms: bool) -> Cipher2d {
    let k = rng.range(0, 2);
    Cipher2d::new_1ds((0..k).map(|_| gen_c1(rng, w, terms)).collect())
}
fn gen_p1(rng: &mut Prng, w: &World) -> Plain1d {
    let k = rng.range(0, 3);
    Plain1d::new((0..k).map(|_| gen_plain_any(rng, w)).collect())
}
fn gen_p2(rng: &mut Prng, w: &World) -> Plain2d {
    let k = rng.range(0, 2);
    Plain2d::new_1ds((0..k).map(|_| gen_p1(rng, w)).collect())
}

pub const KINDS: &[&str] = &[
    "scalar", "modulus", "vec", "params", "parmsid", "plain", "sk", "ct", "ctfull", "ctterms", "pk", "kswitch", "relin",
    "galois", "poly", "plain1d", "plain2d", "plain3d", "cipher1d", "cipher2d", "cipher3d", "cipher1dterms", "cipher2dterms",
    "cipher3dterms",
];

/// Generate an object of the given kind (None when the world cannot produce it, e.g. relin keys without key switching).
pub fn gen_obj(rng: &mut Prng, w: &World, kind: &str) -> Option<Obj> {
    let n = w.spec.n;
    Some(match kind {
        "scalar" => match rng.below(5) {
            0 => Obj::U64(if rng.coin() { rng.next_u64() } else { rng.below(300) }),
            1 => Obj::Usize(rng.below(1 << 20) as usize),
            2 => Obj::U8(rng.below(256) as u8),
            3 => Obj::Bool(rng.coin()),
            _ => Obj::F64(f64::from_bits(rng.next_u64())),
        },
        "modulus" => {
            if rng.coin() { Obj::Modulus(*rng.pick(&w.spec.q)) } else { Obj::Scheme(w.spec.scheme) }
        }
        "vec" => {
            // the generic Vec<T> (de)serializer with every scalar element type, nested too
            if rng.chance(1, 3) {
                let k = rng.range(0, 12);
                match rng.below(3) {
                    0 => Obj::VecBool((0..k).map(|_| rng.coin()).collect()),
                    1 => Obj::VecU8((0..k).map(|_| rng.below(256) as u8).collect()),
                    _ => Obj::VecVecBool((0..rng.range(0, 4)).map(|_| (0..rng.range(0, 5)).map(|_| rng.coin()).collect()).collect()),
                }
            } else if rng.coin() {
                let k = rng.range(0, 9);
                Obj::VecU64((0..k).map(|_| rng.next_u64() >> rng.below(64)).collect())
            } else {
                Obj::VecModulus(w.spec.q.clone())
            }
        }
        // beyond 2^16 elements (a length a "pre-allocation limit" might be confused with)
        "hugevec" | "hugeplain" => {
            let len = match rng.below(4) {
                0 => 65_537,
                1 => 65_536,
                2 => rng.range(65_530, 66_000),
                _ => rng.range(70_000, 140_000),
            };
            if kind == "hugeplain" && w.spec.scheme != CKKS {
                let mut p = Plaintext::new();
                p.resize(len);
                for i in 0..len {
                    p.data_mut()[i] = rng.below(w.spec.t);
                }
                Obj::Plain(p)
            } else {
                Obj::VecU64((0..len).map(|_| rng.next_u64() >> rng.below(64)).collect())
            }
        }
        "params" => Obj::Params(w.parms.clone()),
        "parmsid" => Obj::ParmsId(*rng.pick(&w.data_levels())),
        "plain" => Obj::Plain(gen_plain_any(rng, w)),
        "sk" => Obj::Sk(w.sk.clone()),
        "ct" | "ctfull" => {
            let max = if rng.chance(1, 4) { 16 } else { 5 };
            let c = if rng.chance(1, 12) {
                // bound to a level of the context but (still) without polynomials, or with one only
                let mut c = Ciphertext::new();
                c.resize(&w.ctx, &rng.pick(&w.data_levels()).clone(), rng.range(0, 1));
                c.set_is_ntt_form(w.default_ntt());
                c
            } else {
                gen_cipher(rng, w, true, max)
            };
            if kind == "ct" { Obj::Ct(c) } else { Obj::CtFull(c) }
        }
        "ctterms" => Obj::CtTerms(gen_cipher(rng, w, true, 3), gen_terms(rng, n)),
        "pk" => Obj::Pk(w.keygen.create_public_key(rng.coin())),
        "kswitch" => {
            if !w.uses_keyswitching() { return None; }
            let other = KeyGenerator::new(w.ctx.clone());
            Obj::KSwitch(w.keygen.create_keyswitching_key(other.secret_key(), rng.coin()))
        }
        "relin" => {
            if !w.uses_keyswitching() { return None; }
            Obj::Relin(w.keygen.create_relin_keys(rng.coin()))
        }
        "galois" => {
            if !w.uses_keyswitching() { return None; }
            let m = 2 * n;
            let count = rng.range(0, 3);
            let elts: Vec<usize> = (0..count).map(|_| 2 * rng.usize_below(m / 2) + 1).collect();
            let a = w.keygen.create_galois_keys_from_elts(&elts, rng.coin());
            if count >= 1 && rng.chance(1, 3) {
                // a set assembled from two generations (entries seeded and expanded side by side):
                // the entries of a second set are written over / next to those of the first
                let more: Vec<usize> = (0..rng.range(1, 2)).map(|_| 2 * rng.usize_below(m / 2) + 1).collect();
                let b = w.keygen.create_galois_keys_from_elts(&more, rng.coin());
                let mut ks = a.as_kswitch_keys().clone();
                let bk = b.as_kswitch_keys();
                if bk.data().len() > ks.data().len() {
                    ks.data_mut().resize(bk.data().len(), Vec::new());
                }
                for (i, entry) in bk.data().iter().enumerate() {
                    if !entry.is_empty() {
                        ks[i] = entry.clone();
                    }
                }
                Obj::Galois(GaloisKeys::new(ks))
            } else {
                Obj::Galois(a)
            }
        }
        "poly" => {
            if w.spec.scheme != CKKS && rng.coin() {
                let p = w.random_plain(rng);
                Obj::Poly(p.data().clone(), PARMS_ID_ZERO)
            } else {
                let c = gen_cipher(rng, w, false, 3);
                let which = rng.usize_below(c.size());
                Obj::Poly(c.poly(which).to_vec(), *c.parms_id())
            }
        }
        "plain1d" => Obj::Plain1d(gen_p1(rng, w)),
        "plain2d" => Obj::Plain2d(gen_p2(rng, w)),
        "plain3d" => {
            let k = rng.range(0, 2);
            Obj::Plain3d(Plain3d::new_2ds((0..k).map(|_| gen_p2(rng, w)).collect()))
        }
        "cipher1d" => Obj::Cipher1d(gen_c1(rng, w, false)),
        "cipher2d" => Obj::Cipher2d(gen_c2(rng, w, false)),
        "cipher3d" => {
            let k = rng.range(0, 2);
            Obj::Cipher3d(Cipher3d::new_2ds((0..k).map(|_| gen_c2(rng, w, false)).collect()))
        }
        "cipher1dterms" => Obj::Cipher1dTerms(gen_c1(rng, w, true), gen_terms(rng, n)),
        "cipher2dterms" => Obj::Cipher2dTerms(gen_c2(rng, w, true), gen_terms(rng, n)),
        "cipher3dterms" => {
            let k = rng.range(0, 2);
            Obj::Cipher3dTerms(Cipher3d::new_2ds((0..k).map(|_| gen_c2(rng, w, true)).collect()), gen_terms(rng, n))
        }
        _ => return None,
    })
}
