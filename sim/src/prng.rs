//! The simulator's own PRNG: SplitMix64 seeding into xoshiro256**.
//! Everything random in a run derives from one integer through labelled forks,
//! so adding draws in one subsystem never shifts the stream of another.

#[derive(Clone, Debug)]
pub struct Prng {
    s: [u64; 4],
    origin: u64,
}

#[inline]
fn splitmix(x: &mut u64) -> u64 {
    *x = x.wrapping_add(0x9E37_79B9_7F4A_7C15);
    let mut z = *x;
    z = (z ^ (z >> 30)).wrapping_mul(0xBF58_476D_1CE4_E5B9);
    z = (z ^ (z >> 27)).wrapping_mul(0x94D0_49BB_1331_11EB);
    z ^ (z >> 31)
}

/// FNV-1a over bytes followed by a splitmix finaliser.
pub fn hash_bytes(seed: u64, bytes: &[u8]) -> u64 {
    let mut h = 0xcbf2_9ce4_8422_2325u64 ^ seed.rotate_left(17);
    for &b in bytes {
        h ^= b as u64;
        h = h.wrapping_mul(0x0000_0100_0000_01B3);
    }
    let mut x = h;
    splitmix(&mut x)
}

pub fn hash_label(seed: u64, label: &str) -> u64 {
    hash_bytes(seed, label.as_bytes())
}

pub fn mix(a: u64, b: u64, c: u64) -> u64 {
    let mut x = a ^ 0x5851_F42D_4C95_7F2D;
    let mut r = splitmix(&mut x);
    x ^= b.wrapping_mul(0xD6E8_FEB8_6659_FD93);
    r ^= splitmix(&mut x);
    x ^= c.wrapping_mul(0xA076_1D64_78BD_642F);
    r ^= splitmix(&mut x);
    let mut y = r;
    splitmix(&mut y)
}

impl Prng {
    pub fn new(seed: u64) -> Self {
        let mut x = seed;
        let s = [splitmix(&mut x), splitmix(&mut x), splitmix(&mut x), splitmix(&mut x)];
        Prng { s, origin: seed }
    }

    /// A generator that depends only on this generator's origin and the label,
    /// not on how many values have been drawn.
    pub fn fork(&self, label: &str) -> Prng {
        Prng::new(hash_label(self.origin, label))
    }

    pub fn fork_n(&self, label: &str, n: u64) -> Prng {
        Prng::new(mix(hash_label(self.origin, label), n, 0x1234))
    }

    pub fn origin(&self) -> u64 {
        self.origin
    }

    #[inline]
    pub fn next_u64(&mut self) -> u64 {
        let result = self.s[1].wrapping_mul(5).rotate_left(7).wrapping_mul(9);
        let t = self.s[1] << 17;
        self.s[2] ^= self.s[0];
        self.s[3] ^= self.s[1];
        self.s[1] ^= self.s[2];
        self.s[0] ^= self.s[3];
        self.s[2] ^= t;
        self.s[3] = self.s[3].rotate_left(45);
        result
    }

    /// Uniform in [0, n); n must be > 0.
    #[inline]
    pub fn below(&mut self, n: u64) -> u64 {
        debug_assert!(n > 0);
        ((self.next_u64() as u128 * n as u128) >> 64) as u64
    }

    #[inline]
    pub fn usize_below(&mut self, n: usize) -> usize {
        self.below(n as u64) as usize
    }

    /// Uniform in [lo, hi] inclusive.
    #[inline]
    pub fn range(&mut self, lo: usize, hi: usize) -> usize {
        lo + self.below((hi - lo + 1) as u64) as usize
    }

    #[inline]
    pub fn chance(&mut self, num: u64, den: u64) -> bool {
        self.below(den) < num
    }

    #[inline]
    pub fn coin(&mut self) -> bool {
        self.next_u64() & 1 == 1
    }

    pub fn pick<'a, T>(&mut self, xs: &'a [T]) -> &'a T {
        &xs[self.usize_below(xs.len())]
    }

    pub fn shuffle<T>(&mut self, xs: &mut [T]) {
        for i in (1..xs.len()).rev() {
            let j = self.usize_below(i + 1);
            xs.swap(i, j);
        }
    }

    pub fn fill(&mut self, out: &mut [u8]) {
        for chunk in out.chunks_mut(8) {
            let v = self.next_u64().to_le_bytes();
            chunk.copy_from_slice(&v[..chunk.len()]);
        }
    }

    pub fn bytes64(&mut self) -> [u8; 64] {
        let mut b = [0u8; 64];
        self.fill(&mut b);
        b
    }
}

/// Adapter so that the simulator's PRNG can be handed to code that wants a `rand::RngCore`.
impl rand::RngCore for Prng {
    fn next_u32(&mut self) -> u32 {
        (self.next_u64() >> 32) as u32
    }
    fn next_u64(&mut self) -> u64 {
        Prng::next_u64(self)
    }
    fn fill_bytes(&mut self, dest: &mut [u8]) {
        self.fill(dest)
    }
    fn try_fill_bytes(&mut self, dest: &mut [u8]) -> Result<(), rand::Error> {
        self.fill(dest);
        Ok(())
    }
}
