//! Small helpers: silent panic capture, hashing, hex.

use std::cell::RefCell;
use std::panic::{self, AssertUnwindSafe};
use std::sync::Once;

thread_local! {
    static LAST_PANIC: RefCell<Option<String>> = const { RefCell::new(None) };
}

static HOOK: Once = Once::new();

/// Marker payload used by the scheduler to unwind a simulated thread when a run is aborted.
pub struct AbortRun;

/// Install a panic hook that records message and location thread-locally and prints nothing
/// (set HESIM_PANIC_TRACE=1 to also print).
pub fn install_panic_hook() {
    HOOK.call_once(|| {
        let verbose = std::env::var("HESIM_PANIC_TRACE").is_ok();
        panic::set_hook(Box::new(move |info| {
            if info.payload().downcast_ref::<AbortRun>().is_some() {
                return;
            }
            let msg = if let Some(s) = info.payload().downcast_ref::<&str>() {
                s.to_string()
            } else if let Some(s) = info.payload().downcast_ref::<String>() {
                s.clone()
            } else {
                "<non-string panic payload>".to_string()
            };
            let loc = info
                .location()
                .map(|l| format!("{}:{}", l.file().rsplit("/repo/").next().unwrap_or(l.file()), l.line()))
                .unwrap_or_default();
            let full = format!("{} @ {}", msg, loc);
            if verbose {
                eprintln!("[panic] {}", full);
            }
            LAST_PANIC.with(|p| *p.borrow_mut() = Some(full));
        }));
    });
}

/// Outcome of running a closure under panic capture.
pub enum Caught<R> {
    Ok(R),
    Panic(String),
    /// The scheduler unwound this thread on purpose.
    Aborted,
}

pub fn catch<R>(f: impl FnOnce() -> R) -> Caught<R> {
    LAST_PANIC.with(|p| *p.borrow_mut() = None);
    match panic::catch_unwind(AssertUnwindSafe(f)) {
        Ok(r) => Caught::Ok(r),
        Err(payload) => {
            if payload.downcast_ref::<AbortRun>().is_some() {
                return Caught::Aborted;
            }
            let msg = LAST_PANIC.with(|p| p.borrow_mut().take()).unwrap_or_else(|| {
                if let Some(s) = payload.downcast_ref::<&str>() {
                    s.to_string()
                } else if let Some(s) = payload.downcast_ref::<String>() {
                    s.clone()
                } else {
                    "<panic>".into()
                }
            });
            Caught::Panic(msg)
        }
    }
}

/// Convenience: Result with the panic message as error.
pub fn catch_res<R>(f: impl FnOnce() -> R) -> Result<R, String> {
    match catch(f) {
        Caught::Ok(r) => Ok(r),
        Caught::Panic(m) => Err(m),
        Caught::Aborted => Err("<aborted>".into()),
    }
}

/// 64-bit content hash (blake3 truncated) for de-duplication sets and log hashes.
pub fn h64(bytes: &[u8]) -> u64 {
    let h = blake3::hash(bytes);
    u64::from_le_bytes(h.as_bytes()[..8].try_into().unwrap())
}

pub fn h64_u64s(words: &[u64]) -> u64 {
    let mut hasher = blake3::Hasher::new();
    for w in words {
        hasher.update(&w.to_le_bytes());
    }
    u64::from_le_bytes(hasher.finalize().as_bytes()[..8].try_into().unwrap())
}

/// Incremental log hasher: order-sensitive digest of everything a run did.
pub struct LogHash(blake3::Hasher);

impl Default for LogHash {
    fn default() -> Self {
        LogHash(blake3::Hasher::new())
    }
}

impl LogHash {
    pub fn new() -> Self {
        Self::default()
    }
    pub fn str(&mut self, s: &str) {
        self.0.update(&(s.len() as u64).to_le_bytes());
        self.0.update(s.as_bytes());
    }
    pub fn u64(&mut self, v: u64) {
        self.0.update(&v.to_le_bytes());
    }
    pub fn bytes(&mut self, b: &[u8]) {
        self.0.update(&(b.len() as u64).to_le_bytes());
        self.0.update(b);
    }
    pub fn words(&mut self, w: &[u64]) {
        self.0.update(&(w.len() as u64).to_le_bytes());
        for x in w {
            self.0.update(&x.to_le_bytes());
        }
    }
    pub fn finish(&self) -> u64 {
        u64::from_le_bytes(self.0.finalize().as_bytes()[..8].try_into().unwrap())
    }
}

pub fn hex(bytes: &[u8]) -> String {
    let mut s = String::with_capacity(bytes.len() * 2);
    for b in bytes {
        s.push_str(&format!("{:02x}", b));
    }
    s
}

pub fn unhex(s: &str) -> Option<Vec<u8>> {
    if s.len() % 2 != 0 {
        return None;
    }
    (0..s.len() / 2).map(|i| u8::from_str_radix(&s[2 * i..2 * i + 2], 16).ok()).collect()
}

pub fn excerpt(bytes: &[u8], n: usize) -> String {
    if bytes.len() <= n {
        hex(bytes)
    } else {
        format!("{}..(+{} bytes)", hex(&bytes[..n]), bytes.len() - n)
    }
}
