//! C15 — serialization fails cleanly under I/O faults.
//!
//! World: the real (de)serializers of heathcliff; sinks and sources are FaultyWriter /
//! FaultyReader. For every generated object: every EOF offset and every hard-failure offset on
//! the reader side, every hard-failure offset on the writer side (sampled above a cap), each
//! crossed with PRNG-drawn per-call acceptance limits / Interrupted / Ok(0), plus fault-free
//! fragmented deliveries.

use crate::driver::{self, Batch, Report, RunOut, Tier, Violation};
use crate::gen::{self, ParamSpec, SpecOpts, World};
use crate::io_fault::{FaultyReader, FaultyWriter, Fired, Script};
use crate::objs::{self, Obj, Tag};
use crate::prng::{self, Prng};
use crate::util::{self, catch, Caught, LogHash};
use serde_json::{json, Value};

pub const PROP: &str = "C15";

#[derive(Clone, Debug)]
pub struct Scn {
    pub spec: ParamSpec,
    pub ent: u64,
    pub kind: String,
    pub obj_seed: u64,
}

impl Scn {
    pub fn to_json(&self) -> Value {
        json!({"spec": self.spec.to_json(), "entropy_seed": self.ent, "kind": self.kind, "obj_seed": self.obj_seed})
    }
    pub fn from_json(v: &Value) -> Option<Self> {
        Some(Scn {
            spec: ParamSpec::from_json(&v["spec"])?,
            ent: v["entropy_seed"].as_u64()?,
            kind: v["kind"].as_str()?.to_string(),
            obj_seed: v["obj_seed"].as_u64()?,
        })
    }
}

pub struct Mat {
    pub world: World,
    pub obj: Obj,
    pub tag: Tag,
    pub enc: Vec<u8>,
    pub expected: Obj,
    /// bytes a clean deserialization consumes
    pub consumed: usize,
    /// does a clean deserialization restore the expected object? (If not, that is C14's finding; the
    /// equality of completely delivered objects is then not judged here, truncations still are.)
    pub clean_ok: bool,
}

/// Rebuild world and object from the expanded scenario. Err = degenerate (not a violation).
pub fn materialise(scn: &Scn) -> Result<Mat, String> {
    gen::with_entropy(scn.ent, |_| {
        let world = gen::build_world(&scn.spec)?;
        let mut rng = Prng::new(scn.obj_seed);
        let kind = scn.kind.clone();
        let obj = match util::catch_res(|| objs::gen_obj(&mut rng, &world, &kind)) {
            Ok(Some(o)) => o,
            Ok(None) => return Err("kind not available in this world".into()),
            Err(e) => return Err(format!("generator panicked: {}", e)),
        };
        let mut enc = Vec::new();
        match util::catch_res(|| obj.ser(&world.ctx, &mut enc)) {
            Ok(Ok(_)) => {}
            Ok(Err(e)) => return Err(format!("reference serialization failed: {}", e)),
            Err(e) => return Err(format!("reference serialization panicked: {}", e)),
        }
        let tag = obj.tag();
        let expected = match util::catch_res(|| obj.expected_restored(&world.ctx)) {
            Ok(e) => e,
            Err(e) => return Err(format!("expected form panicked: {}", e)),
        };
        // clean reference deserialization (C14's business if it fails; here it only gates the object)
        let mut rd = FaultyReader::new(&enc, Script::clean());
        let mut clean_ok = true;
        let consumed = match util::catch_res(|| Obj::de(&tag, &world.ctx, &mut rd)) {
            Ok(Ok(o)) => {
                if o.same(&expected).is_err() {
                    clean_ok = false;
                }
                rd.pos
            }
            Ok(Err(e)) => return Err(format!("clean deserialization failed: {}", e)),
            Err(e) => return Err(format!("clean deserialization panicked: {}", e)),
        };
        Ok(Mat { world, obj, tag, enc, expected, consumed, clean_ok })
    })
}

#[derive(Clone, Copy, Debug, PartialEq, Eq)]
pub enum Side {
    Ser,
    De,
}

impl Side {
    fn name(self) -> &'static str {
        match self {
            Side::Ser => "ser",
            Side::De => "de",
        }
    }
}

pub struct Outcome {
    pub bad: Option<(String, String)>, // (class, detail)
    pub fired: Fired,
    pub result_kind: &'static str,
}

/// Execute one fault case against the real code and judge it.
pub fn exec_case(m: &Mat, side: Side, script: &Script) -> Outcome {
    let ctx = &m.world.ctx;
    match side {
        Side::Ser => {
            let mut fw = FaultyWriter::new(script.clone());
            let res = catch(|| m.obj.ser(ctx, &mut fw));
            let fired = fw.fired.clone();
            match res {
                Caught::Panic(msg) => Outcome { bad: Some(("panic".into(), format!("serialize panicked: {}", msg))), fired, result_kind: "panic" },
                Caught::Aborted => Outcome { bad: None, fired, result_kind: "aborted" },
                Caught::Ok(Err(_)) => Outcome { bad: None, fired, result_kind: "err" },
                Caught::Ok(Ok(n)) => {
                    if fw.sink == m.enc && n == m.enc.len() {
                        Outcome { bad: None, fired, result_kind: "ok-complete" }
                    } else if fw.sink == m.enc {
                        Outcome {
                            bad: Some(("wrong-count".into(), format!("serialize returned Ok({}) but {} bytes were transmitted", n, m.enc.len()))),
                            fired,
                            result_kind: "ok-wrong-count",
                        }
                    } else {
                        let class = if fw.sink.len() < m.enc.len() { "silent-truncation" } else { "corrupt-stream" };
                        Outcome {
                            bad: Some((
                                class.into(),
                                format!(
                                    "serialize returned Ok({}) but the sink holds {} bytes [{}] while the complete encoding has {} bytes [{}]",
                                    n,
                                    fw.sink.len(),
                                    util::excerpt(&fw.sink, 24),
                                    m.enc.len(),
                                    util::excerpt(&m.enc, 24)
                                ),
                            )),
                            fired,
                            result_kind: "ok-bad",
                        }
                    }
                }
            }
        }
        Side::De => {
            let mut rd = FaultyReader::new(&m.enc, script.clone());
            let res = catch(|| Obj::de(&m.tag, ctx, &mut rd));
            let fired = rd.fired.clone();
            // "a stream that ends early at any byte offset of a valid encoding": every offset below the
            // encoding's length counts, also one the deserializer never got to because it consumed
            // fewer bytes than were written; a read error only counts where it can fire
            let incomplete = script.eof_at.map(|k| k < m.enc.len()).unwrap_or(false) || script.fail_at.map(|k| k < m.consumed).unwrap_or(false);
            match res {
                Caught::Panic(msg) => Outcome { bad: Some(("panic".into(), format!("deserialize panicked: {}", msg))), fired, result_kind: "panic" },
                Caught::Aborted => Outcome { bad: None, fired, result_kind: "aborted" },
                Caught::Ok(Err(_)) => Outcome { bad: None, fired, result_kind: "err" },
                Caught::Ok(Ok(o)) => {
                    if incomplete {
                        Outcome {
                            bad: Some((
                                "ok-on-truncated".into(),
                                format!(
                                    "deserialize returned Ok although the stream {} at offset {} of {}",
                                    if script.eof_at.is_some() { "ended" } else { "failed" },
                                    script.eof_at.or(script.fail_at).unwrap(),
                                    m.consumed
                                ),
                            )),
                            fired,
                            result_kind: "ok-bad",
                        }
                    } else {
                        match if m.clean_ok { o.same(&m.expected) } else { Ok(()) } {
                            Ok(()) => Outcome { bad: None, fired, result_kind: "ok-complete" },
                            Err(d) => Outcome {
                                bad: Some(("wrong-object".into(), format!("fragmented but complete stream restored a different object: {}", d))),
                                fired,
                                result_kind: "ok-bad",
                            },
                        }
                    }
                }
            }
        }
    }
}

fn offsets(len: usize, cap: usize, rng: &mut Prng) -> Vec<usize> {
    if len <= cap {
        return (0..len).collect();
    }
    let mut v: Vec<usize> = (0..96.min(len)).collect();
    v.extend(len.saturating_sub(64)..len);
    // around the block sizes internal buffers tend to have
    for blk in [4096usize, 8192] {
        let mut b = blk;
        while b < len && b <= 64 * blk {
            v.extend([b - 1, b, b + 1].into_iter().filter(|&x| x < len));
            b += blk;
        }
    }
    while v.len() < cap {
        v.push(rng.usize_below(len));
    }
    v.sort();
    v.dedup();
    v
}

fn offset_class(k: usize) -> u64 {
    if k < 96 {
        k as u64
    } else {
        96 + 8 * (63 - (k as u64).leading_zeros() as u64) + (k as u64 % 8)
    }
}

fn fault_kind(script: &Script, side: Side) -> &'static str {
    if script.eof_at.is_none() && script.fail_at.is_none() && script.steps.iter().any(|s| matches!(s, crate::io_fault::Step::Transient)) {
        return if side == Side::Ser { "transient-write-error" } else { "transient-read-error" };
    }
    match (side, script.eof_at.is_some(), script.fail_at.is_some()) {
        (Side::De, true, _) => "eof",
        (Side::De, false, true) => "read-error",
        (Side::De, false, false) => "fragmented-read",
        (Side::Ser, _, true) => "write-error",
        (Side::Ser, _, false) => "short-writes",
    }
}

fn prelude_json(prelude: &[(Side, Script)]) -> Value {
    Value::Array(prelude.iter().map(|(sd, sc)| json!({"side": sd.name(), "script": sc.to_json()})).collect())
}

fn prelude_from(v: &Value) -> Vec<(Side, Script)> {
    v.as_array()
        .map(|a| {
            a.iter()
                .filter_map(|e| {
                    let side = match e["side"].as_str()? {
                        "ser" => Side::Ser,
                        "de" => Side::De,
                        _ => return None,
                    };
                    Some((side, Script::from_json(&e["script"])?))
                })
                .collect()
        })
        .unwrap_or_default()
}

/// `prelude`: the cases executed on the same thread immediately before (a failed transfer may
/// leave state behind that only the next one shows); a replay executes them first.
fn violation(scn: &Scn, m: &Mat, side: Side, script: &Script, class: &str, detail: &str, prelude: &[(Side, Script)]) -> Violation {
    Violation {
        key: format!("{}/{}/{}", side.name(), class, m.tag.name().replace(['<', '>'], "_")),
        class: class.to_string(),
        detail: format!(
            "{} of {} ({}; {} bytes) under {} [{}]: {}",
            if side == Side::Ser { "serialization" } else { "deserialization" },
            m.obj.class(),
            scn.spec.class(),
            m.enc.len(),
            fault_kind(script, side),
            script.to_json(),
            detail
        ),
        replay: json!({
            "scenario": scn.to_json(),
            "side": side.name(),
            "script": script.to_json(),
            "prelude": prelude_json(prelude),
            "encoding_len": m.enc.len(),
            "encoding_hash": util::h64(&m.enc),
            "encoding_hex": if m.enc.len() <= 2048 { Value::String(util::hex(&m.enc)) } else { Value::Null },
        }),
    }
}

struct Budget {
    objects: usize,
    offset_cap: usize,
    scripts: usize,
}

fn budget(tier: Tier) -> Budget {
    match tier {
        Tier::Quick => Budget { objects: driver::scale(4800), offset_cap: 1500, scripts: 60 },
        Tier::Thorough => Budget { objects: driver::scale(480000), offset_cap: 20000, scripts: 200 },
    }
}

/// The same fault sweep on an `app::rns_plain` wrapper object.
fn rnsp_run(i: usize, run_seed: u64, b: &Budget) -> RunOut {
    use crate::rnsp::{self, RScn};
    let mut out = RunOut::default();
    let mut log = LogHash::new();
    let mut rng = Prng::new(run_seed).fork("rnsp");
    let kind = rnsp::KINDS[(i / 24 + rng.usize_below(2)) % rnsp::KINDS.len()].to_string();
    let mut got = None;
    for attempt in 0..10 {
        let Some(specs) = rnsp::draw_specs(&mut rng) else { continue };
        let scn = RScn { specs, ent: prng::mix(run_seed, 3, attempt), kind: kind.clone(), obj_seed: prng::mix(run_seed, 4, attempt) };
        if let Ok(m) = rnsp::materialise(&scn) {
            got = Some((scn, m));
            break;
        }
    }
    let Some((scn, m)) = got else {
        out.degenerate = true;
        return out;
    };
    out.count(&format!("objects.{}", m.obj.name()), 1);
    log.bytes(&m.enc);
    let mut frng = Prng::new(run_seed).fork("rnsp-io");
    let oclass = m.obj.class();
    let mut evals = 0u64;
    let mut judge = |ser: bool, script: Script, out: &mut RunOut, log: &mut LogHash| {
        let (bad, fired, kind_s) = rnsp::fault_case(&m, ser, &script);
        evals += 1;
        log.str(kind_s);
        log.u64(fired.calls as u64);
        out.count(&format!("result.{}.{}", if ser { "ser" } else { "de" }, kind_s), 1);
        out.count("fired.short", fired.short as u64);
        out.count("fired.interrupted", fired.interrupted as u64);
        out.count("fired.zero_write", fired.zero as u64);
        out.count("fired.hard_error", fired.hard_error as u64);
        out.count("fired.eof", fired.eof as u64);
        out.count("io_calls", fired.calls as u64);
        let side = if ser { Side::Ser } else { Side::De };
        if fired.hard_error + fired.eof + fired.short + fired.interrupted + fired.zero > 0 {
            let off = script.eof_at.or(script.fail_at).unwrap_or(0);
            out.distinct.push(util::h64(format!("{}|{}|{}|{}", oclass, side.name(), fault_kind(&script, side), offset_class(off)).as_bytes()));
        }
        if let Some((class, detail)) = bad {
            out.violations.push(Violation {
                key: format!("{}/{}/{}", side.name(), class, m.obj.name()),
                class: class.clone(),
                detail: format!("{} of {} ({} bytes) under {} [{}]: {}", if ser { "serialization" } else { "deserialization" }, oclass, m.enc.len(), fault_kind(&script, side), script.to_json(), detail),
                replay: json!({"rnsp_scenario": scn.to_json(), "side": side.name(), "script": script.to_json(), "encoding_hash": util::h64(&m.enc)}),
            });
        }
    };
    for k in offsets(m.consumed, b.offset_cap, &mut frng) {
        let mut s = if frng.coin() { Script::clean() } else { Script::draw_with_transient(&mut frng, false) };
        s.eof_at = Some(k);
        judge(false, s, &mut out, &mut log);
        let mut s = if frng.coin() { Script::clean() } else { Script::draw_with_transient(&mut frng, false) };
        s.fail_at = Some(k);
        judge(false, s, &mut out, &mut log);
    }
    for k in offsets(m.enc.len(), b.offset_cap, &mut frng) {
        let mut s = if frng.coin() { Script::clean() } else { Script::draw_with_transient(&mut frng, true) };
        s.fail_at = Some(k);
        judge(true, s, &mut out, &mut log);
    }
    for _ in 0..b.scripts {
        judge(true, Script::draw_with_transient(&mut frng, true), &mut out, &mut log);
        judge(false, Script::draw_with_transient(&mut frng, false), &mut out, &mut log);
    }
    out.count("evaluations", evals);
    out.log_hash = log.finish();
    out
}

fn one_run(i: usize, run_seed: u64, b: &Budget) -> RunOut {
    if i % 24 == 11 {
        return rnsp_run(i, run_seed, b);
    }
    let mut out = RunOut::default();
    let mut log = LogHash::new();
    let root = Prng::new(run_seed);
    let mut prng = root.fork("scenario");
    // swarm: each run picks its own world and object kind; kinds are cycled so that every type is hit
    let mut opts = SpecOpts::serialization();
    // now and then a realistic ring size (components of 8-32 KiB): bulk paths with internal
    // buffers only show there; the fault offsets are then sampled around block boundaries
    let big = i % 48 == 29;
    const BIG_KINDS: &[&str] = &["ct", "ctfull", "ctterms", "pk", "poly", "plain", "cipher1d", "sk", "plain1d", "cipher1dterms"];
    if big {
        opts.ns = vec![1024, 2048, 4096];
        opts.min_primes = 1;
        opts.max_primes = 2;
        opts.qbits = vec![17, 30, 36, 41, 50, 60];
        opts.tbits = vec![17, 20];
        opts.batching = true;
    }
    let kind = if big { BIG_KINDS[(i / 48 + prng.usize_below(3)) % BIG_KINDS.len()].to_string() } else { objs::KINDS[(i + prng.usize_below(3)) % objs::KINDS.len()].to_string() };
    let mut mat = None;
    let mut scn_used = None;
    for attempt in 0..12 {
        let Some(mut spec) = gen::draw_spec(&mut prng, &opts) else { continue };
        // plain polynomials are packed by the byte width of the plain modulus: put the widths' edge
        // cases (t = 2^8, 2^16, 2^8 + 1, 2^16 + 1 ...) in front of the polynomial serializer on purpose
        if kind == "poly" && spec.scheme != gen::CKKS && attempt < 6 && prng.coin() {
            let total_bits: usize = spec.q.iter().map(|&x| 64 - x.leading_zeros() as usize).sum();
            let t = *prng.pick(&[256u64, 65536, 255, 257, 65535, 65537, 1 << 24]);
            if (64 - t.leading_zeros() as usize) + 2 < total_bits && spec.q.iter().all(|&p| t % p != 0 && p != t) {
                spec.t = t;
            }
        }
        let scn = Scn { spec, ent: prng::mix(run_seed, 1, attempt), kind: kind.clone(), obj_seed: prng::mix(run_seed, 2, attempt) };
        match materialise(&scn) {
            Ok(m) => {
                mat = Some(m);
                scn_used = Some(scn);
                break;
            }
            Err(e) => {
                out.count(&format!("skipped.{}", e.split(':').next().unwrap_or("?").replace(' ', "_")), 1);
            }
        }
    }
    let (Some(m), Some(scn)) = (mat, scn_used) else {
        out.degenerate = true;
        return out;
    };
    log.str(&kind);
    log.bytes(&m.enc);
    out.count(&format!("objects.{}", m.tag.name()), 1);
    out.count("bytes.encoded", m.enc.len() as u64);
    let oclass = m.obj.class();
    let sclass = scn.spec.class();
    let mut evals = 0u64;
    let mut frng = root.fork("io");

    let mut recent: Vec<(Side, Script)> = Vec::new();
    let mut judge = |side: Side, script: Script, out: &mut RunOut, log: &mut LogHash| {
        let o = exec_case(&m, side, &script);
        evals += 1;
        let kind = fault_kind(&script, side);
        log.str(kind);
        log.str(o.result_kind);
        log.u64(o.fired.calls as u64);
        log.u64((o.fired.short + 1000 * o.fired.interrupted + 1000000 * o.fired.zero) as u64);
        out.count(&format!("result.{}.{}", side.name(), o.result_kind), 1);
        out.count("fired.short", o.fired.short as u64);
        out.count("fired.interrupted", o.fired.interrupted as u64);
        out.count("fired.zero_write", o.fired.zero as u64);
        out.count("fired.hard_error", o.fired.hard_error as u64);
        out.count("fired.eof", o.fired.eof as u64);
        out.count("fired.transient_would_block", o.fired.transient as u64);
        out.count("io_calls", o.fired.calls as u64);
        let fault_fired = o.fired.hard_error + o.fired.eof + o.fired.short + o.fired.interrupted + o.fired.zero + o.fired.transient > 0;
        if fault_fired {
            let off = script.eof_at.or(script.fail_at).unwrap_or(0);
            let h = util::h64(format!("{}|{}|{}|{}|{}", oclass, sclass, side.name(), kind, offset_class(off)).as_bytes());
            out.distinct.push(h);
            out.distinct_in("type_x_fault", util::h64(format!("{}|{}|{}", m.tag.name(), side.name(), kind).as_bytes()));
        } else {
            out.count("fault_not_reached", 1);
        }
        if o.fired.hard_error + o.fired.eof > 0 && off_in_multibyte(&script) {
            out.count("probe.fault_inside_multibyte_field", 1);
        }
        if let Some((class, detail)) = o.bad {
            out.violations.push(violation(&scn, &m, side, &script, &class, &detail, &recent));
        }
        if recent.len() == 2 {
            recent.remove(0);
        }
        recent.push((side, script));
    };

    if big {
        out.count("probe.large_ring_object", 1);
    }
    if kind == "poly" && scn.spec.t >= 256 && scn.spec.t.is_power_of_two() && scn.spec.t.trailing_zeros() % 8 == 0 {
        out.count("probe.polynomial_with_plain_modulus_256_pow_k", 1);
        if matches!(&m.obj, Obj::Poly(_, id) if *id == heathcliff::PARMS_ID_ZERO) {
            out.count("probe.plain_polynomial_with_plain_modulus_256_pow_k", 1);
        }
    }
    let cap = if big { 260 } else { b.offset_cap };
    let nscripts = if big { 6 } else { b.scripts };
    // reader side: every EOF offset and every hard-error offset
    for k in offsets(m.enc.len().max(m.consumed), cap, &mut frng) {
        let mut s = if frng.coin() { Script::clean() } else { Script::draw_with_transient(&mut frng, false) };
        s.eof_at = Some(k);
        judge(Side::De, s, &mut out, &mut log);
        let mut s = if frng.coin() { Script::clean() } else { Script::draw_with_transient(&mut frng, false) };
        s.fail_at = Some(k);
        judge(Side::De, s, &mut out, &mut log);
    }
    // writer side: every hard-failure offset
    for (j, k) in offsets(m.enc.len(), cap, &mut frng).into_iter().enumerate() {
        let mut s = if frng.coin() { Script::clean() } else { Script::draw_with_transient(&mut frng, true) };
        s.fail_at = Some(k);
        judge(Side::Ser, s, &mut out, &mut log);
        // a healthy transfer right after a failed one, on the same thread: nothing of the failed
        // attempt may leak into it
        if big || j % 16 == 0 {
            judge(Side::Ser, Script::clean(), &mut out, &mut log);
        }
    }
    // fault-free fragmentation both ways
    for _ in 0..nscripts {
        judge(Side::Ser, Script::draw_with_transient(&mut frng, true), &mut out, &mut log);
        judge(Side::De, Script::draw_with_transient(&mut frng, false), &mut out, &mut log);
    }
    out.count("evaluations", evals);
    out.log_hash = log.finish();
    if i % 97 == 0 || i < 2 {
        out.sample = Some(json!({
            "object": oclass, "params": scn.spec.to_json(), "encoding_bytes": m.enc.len(),
            "cases": ["eof at every offset", "read error at every offset", "write error at every offset", "fragmented"],
            "example_script": Script::draw(&mut root.fork("sample"), true).to_json(),
        }));
    }
    out
}

fn off_in_multibyte(script: &Script) -> bool {
    // offsets not aligned to 8 necessarily cut a multi-byte scalar or packed residue somewhere in these formats
    script.eof_at.or(script.fail_at).map(|k| k % 8 != 0).unwrap_or(false)
}

pub fn run(tier: Tier, seed: u64) -> i32 {
    let b = budget(tier);
    let batch: Batch = driver::run_batch(PROP, seed, b.objects, 6, |i, s| one_run(i, s, &b));
    let evals = batch.counters.get("evaluations").copied().unwrap_or(0);
    let mut extra = serde_json::Map::new();
    extra.insert("objects_generated".into(), json!(batch.runs - batch.degenerate));
    extra.insert("simulated_time".into(), json!({"unit": "logical I/O calls (the code under test reads no clock)", "events": batch.counters.get("io_calls").copied().unwrap_or(0)}));
    extra.insert("evaluations_note".into(), json!("evaluations = executed (object, fault script) cases; driver-level runs = objects"));
    let rep = Report {
        prop: PROP.into(),
        tier,
        seed,
        level: "fault_enumeration",
        rule: "per generated object (24 kinds cycled over seeded worlds: 3 schemes, N in {8,16,32}, 1-4 primes of 8..60 bits): EOF at every offset, read error at every offset, write error at every offset (all offsets up to a cap, sampled above it), each crossed with PRNG-drawn per-call limits 1..8 / Interrupted / Ok(0); plus fault-free fragmented runs. distinct_nontrivial = distinct (object class, parameter class, side, fault kind, offset class) tuples in which a fault actually fired before the operation completed (offset class = exact offset below 96, then log2 bucket x offset mod 8)".into(),
        assumptions: vec![
            "writers/readers obey the std::io contracts (short counts, Interrupted, Ok(0), hard errors, early EOF)".into(),
            "truncation is judged only at offsets below the number of bytes a clean deserialization consumes".into(),
            "objects whose clean round trip already differs are skipped here (that is C14's verdict)".into(),
        ],
        components: json!({"real": ["heathcliff serialize.rs, text.rs, key.rs, app/matmul/cipher{1,2,3}d.rs (all (de)serializers)", "context / key generation / encryption used to build objects"],
                            "stub": ["byte sinks and sources (FaultyWriter/FaultyReader)", "OS entropy (seeded provider through the verif_hooks seam)"]}),
        extra,
    };
    let mut batch = batch;
    batch.runs = evals.max(1) as usize;
    driver::finish(rep, &batch, &minimise, &crate::replay_fresh)
}

fn parse_replay(r: &Value) -> Option<(Scn, Side, Script, u64)> {
    let scn = Scn::from_json(&r["scenario"])?;
    let side = match r["side"].as_str()? {
        "ser" => Side::Ser,
        "de" => Side::De,
        _ => return None,
    };
    let script = Script::from_json(&r["script"])?;
    Some((scn, side, script, r["encoding_hash"].as_u64()?))
}

/// Shrink: drop the fragmentation steps if the class persists, then move the fault to the
/// smallest offset with the same class.
fn minimise(v: &Violation) -> Violation {
    if !v.replay["rnsp_scenario"].is_null() {
        return v.clone();
    }
    let Some((scn, side, script, _)) = parse_replay(&v.replay) else { return v.clone() };
    let Ok(m) = materialise(&scn) else { return v.clone() };
    // does the case fail on its own, or only after what ran before it on the same thread?
    let mut prelude = prelude_from(&v.replay["prelude"]);
    let alone = matches!(exec_case(&m, side, &script).bad, Some((ref c, _)) if *c == v.class);
    if alone {
        prelude.clear();
    } else if prelude.len() == 2 {
        // is the last case before it enough?
        let _ = exec_case(&m, prelude[1].0, &prelude[1].1);
        if matches!(exec_case(&m, side, &script).bad, Some((ref c, _)) if *c == v.class) {
            prelude.remove(0);
        }
    }
    let prelude = prelude;
    let same = |s: &Script| -> Option<String> {
        for (ps, pc) in prelude.iter() {
            let _ = exec_case(&m, *ps, pc);
        }
        let o = exec_case(&m, side, s);
        match o.bad {
            Some((c, d)) if c == v.class => Some(d),
            _ => None,
        }
    };
    let mut best = script.clone();
    let mut best_detail = match same(&best) {
        Some(d) => d,
        None => return v.clone(),
    };
    // 1. simpler fragmentation
    let mut cand = best.clone();
    cand.steps.clear();
    cand.cycle = false;
    if let Some(d) = same(&cand) {
        best = cand;
        best_detail = d;
    } else {
        // drop steps one at a time
        let mut i = 0;
        while i < best.steps.len() {
            let mut c = best.clone();
            c.steps.remove(i);
            if let Some(d) = same(&c) {
                best = c;
                best_detail = d;
            } else {
                i += 1;
            }
        }
    }
    // 2. smallest failing offset
    if let Some(orig) = best.eof_at.or(best.fail_at) {
        for k in 0..orig {
            let mut c = best.clone();
            if c.eof_at.is_some() {
                c.eof_at = Some(k);
            } else {
                c.fail_at = Some(k);
            }
            if let Some(d) = same(&c) {
                best = c;
                best_detail = d;
                break;
            }
        }
    }
    violation(&scn, &m, side, &best, &v.class, &best_detail, &prelude)
}

pub fn replay(doc: &Value) -> i32 {
    if !doc["replay"]["rnsp_scenario"].is_null() {
        let r = &doc["replay"];
        let (Some(scn), Some(script)) = (crate::rnsp::RScn::from_json(&r["rnsp_scenario"]), Script::from_json(&r["script"])) else {
            eprintln!("replay file malformed");
            return 2;
        };
        let m = match crate::rnsp::materialise(&scn) {
            Ok(m) => m,
            Err(e) => {
                eprintln!("replay diverged: {}", e);
                return 2;
            }
        };
        if Some(util::h64(&m.enc)) != r["encoding_hash"].as_u64() {
            eprintln!("replay diverged: regenerated object encodes differently from the recorded one");
            return 2;
        }
        let (bad, _, kind) = crate::rnsp::fault_case(&m, r["side"].as_str() == Some("ser"), &script);
        return match bad {
            Some((class, detail)) => {
                println!("VIOLATION property={} replay={}", PROP, doc["__path"].as_str().unwrap_or("?"));
                println!("  class={} {}", class, detail);
                1
            }
            None => {
                println!("{} replay: property held on this case (result {})", PROP, kind);
                0
            }
        };
    }
    let Some((scn, side, script, want_hash)) = parse_replay(&doc["replay"]) else {
        eprintln!("replay file malformed");
        return 2;
    };
    let m = match materialise(&scn) {
        Ok(m) => m,
        Err(e) => {
            eprintln!("replay diverged: scenario no longer materialises: {}", e);
            return 2;
        }
    };
    if util::h64(&m.enc) != want_hash {
        eprintln!("replay diverged: regenerated object encodes differently from the recorded one");
        return 2;
    }
    for (ps, pc) in prelude_from(&doc["replay"]["prelude"]) {
        let _ = exec_case(&m, ps, &pc);
    }
    let o = exec_case(&m, side, &script);
    match o.bad {
        Some((class, detail)) => {
            println!("VIOLATION property={} replay={}", PROP, doc["__path"].as_str().unwrap_or("?"));
            println!("  class={} {}", class, detail);
            1
        }
        None => {
            println!("{} replay: property held on this case (result {})", PROP, o.result_kind);
            0
        }
    }
}
