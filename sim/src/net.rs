//! Network world: a discrete-event loop that plays the transport between protocol parties.
//! A broadcast becomes n-1 point-to-point deliveries with independent PRNG latencies, so any
//! permutation of the messages of a round — and overlap of round r+1 of a fast party with round r
//! of a slow one — can occur. The node wrapper (this file, playing the application) buffers a
//! message whose round has not started locally. Faults: loss, truncation, sender crash in the
//! middle of a broadcast, fragmented delivery.

use crate::io_fault::{FaultyReader, Script};
use crate::prng::Prng;
use crate::util::{self, Caught};
use serde_json::{json, Value};
use std::collections::{BTreeMap, BTreeSet, BinaryHeap};

/// One protocol session seen from the transport: who sends / receives in each round and the
/// three calls the application makes on each party's protocol object.
pub trait SessionIo {
    fn rounds(&self) -> usize;
    fn senders(&self, round: usize) -> Vec<usize>;
    fn receivers(&self, round: usize) -> Vec<usize>;
    fn send(&mut self, party: usize, round: usize) -> Result<Vec<u8>, String>;
    fn recv(&mut self, to: usize, from: usize, round: usize, r: &mut FaultyReader) -> std::io::Result<()>;
    /// local computation between rounds (e.g. step2); called when `party` enters `round`
    fn advance(&mut self, party: usize, round: usize);
}

#[derive(Clone, Debug, Default, PartialEq)]
pub struct FaultPlan {
    /// (round, from, to) messages that are lost
    pub lost: BTreeSet<(usize, usize, usize)>,
    /// (round, from, to) -> the message is cut after this many bytes
    pub truncated: BTreeMap<(usize, usize, usize), usize>,
    /// (party, round, k): the party crashes in `round` after sending to k recipients
    pub crash: Option<(usize, usize, usize)>,
    /// deliver through fragmenting readers
    pub fragment: bool,
    /// (round, from, to) messages that are delivered twice (at-least-once transport)
    pub dup: BTreeSet<(usize, usize, usize)>,
    /// messages of `truncated` that the sender transmits again, in full, after the cut copy (the
    /// receiving application saw an error and asked again)
    pub retransmit: BTreeSet<(usize, usize, usize)>,
}

impl FaultPlan {
    pub fn is_empty(&self) -> bool {
        self.lost.is_empty() && self.truncated.is_empty() && self.crash.is_none() && self.dup.is_empty() && self.retransmit.is_empty()
    }
    pub fn to_json(&self) -> Value {
        json!({
            "lost": self.lost.iter().map(|(r, f, t)| json!([r, f, t])).collect::<Vec<_>>(),
            "truncated": self.truncated.iter().map(|((r, f, t), k)| json!([r, f, t, k])).collect::<Vec<_>>(),
            "crash": self.crash.map(|(p, r, k)| json!([p, r, k])),
            "fragment": self.fragment,
            "duplicated": self.dup.iter().map(|(r, f, t)| json!([r, f, t])).collect::<Vec<_>>(),
            "retransmitted": self.retransmit.iter().map(|(r, f, t)| json!([r, f, t])).collect::<Vec<_>>(),
        })
    }
    pub fn from_json(v: &Value) -> Option<Self> {
        let mut p = FaultPlan::default();
        for x in v["lost"].as_array()? {
            let a = x.as_array()?;
            p.lost.insert((a[0].as_u64()? as usize, a[1].as_u64()? as usize, a[2].as_u64()? as usize));
        }
        for x in v["truncated"].as_array()? {
            let a = x.as_array()?;
            p.truncated.insert((a[0].as_u64()? as usize, a[1].as_u64()? as usize, a[2].as_u64()? as usize), a[3].as_u64()? as usize);
        }
        if let Some(a) = v["crash"].as_array() {
            p.crash = Some((a[0].as_u64()? as usize, a[1].as_u64()? as usize, a[2].as_u64()? as usize));
        }
        p.fragment = v["fragment"].as_bool().unwrap_or(false);
        if let Some(d) = v["retransmitted"].as_array() {
            for x in d {
                let a = x.as_array()?;
                p.retransmit.insert((a[0].as_u64()? as usize, a[1].as_u64()? as usize, a[2].as_u64()? as usize));
            }
        }
        if let Some(d) = v["duplicated"].as_array() {
            for x in d {
                let a = x.as_array()?;
                p.dup.insert((a[0].as_u64()? as usize, a[1].as_u64()? as usize, a[2].as_u64()? as usize));
            }
        }
        Some(p)
    }
}

/// An event of the session history: kind 0 = party starts, 1 = party writes its message of `round`
/// for one recipient, 2 = that message is handed to the recipient's protocol object.
pub type EvId = (u8, usize, usize, usize); // (kind, round, from, to)

/// How events are ordered.
#[derive(Clone, Debug, PartialEq)]
pub enum Order {
    /// latencies drawn from the PRNG
    Seeded(u64),
    /// replay: explicit event order; anything not listed follows in canonical order
    Forced(Vec<EvId>),
    /// canonical order: per round all sends in index order, then all deliveries in index order
    Canonical,
}

#[derive(Debug)]
enum Ev {
    Start { party: usize },
    SendTo { round: usize, from: usize, to: usize },
    Deliver { round: usize, from: usize, to: usize, bytes: Vec<u8>, dup: bool },
}

struct Item {
    at: u64,
    seq: u64,
    ev: Ev,
}
impl PartialEq for Item {
    fn eq(&self, o: &Self) -> bool {
        (self.at, self.seq) == (o.at, o.seq)
    }
}
impl Eq for Item {}
impl PartialOrd for Item {
    fn partial_cmp(&self, o: &Self) -> Option<std::cmp::Ordering> {
        Some(self.cmp(o))
    }
}
impl Ord for Item {
    fn cmp(&self, o: &Self) -> std::cmp::Ordering {
        // BinaryHeap is a max-heap: reverse
        (o.at, o.seq).cmp(&(self.at, self.seq))
    }
}

#[derive(Debug, Default)]
pub struct NetOutcome {
    /// the party received every message of every round it participates in as receiver
    pub complete: Vec<bool>,
    pub crashed: Vec<bool>,
    /// the party reached the last round (all advances done)
    pub at_last_round: Vec<bool>,
    /// delivery order actually used (round, from, to)
    pub delivered: Vec<(usize, usize, usize)>,
    /// full event order actually used
    pub history: Vec<EvId>,
    pub events: u64,
    pub lost_fired: u64,
    pub truncated_fired: u64,
    pub crash_fired: u64,
    pub fragmented_reads: u64,
    pub buffered_early: u64,
    /// a party handled an incoming message of a round between two of its own sends of that round
    pub receive_between_own_sends: u64,
    pub out_of_index_order: bool,
    /// a local API call panicked where it must not (message, party)
    pub unexpected: Vec<(usize, String)>,
    /// parties that were asked to advance although messages were missing, with the outcome
    pub advance_on_incomplete: Vec<(usize, Result<(), String>)>,
    pub recv_errors: u64,
    pub dup_fired: u64,
    pub retransmit_fired: u64,
    /// the party was sent a full copy of a message after a truncated one
    pub retx_seen: Vec<bool>,
    /// the party was handed at least one duplicate message
    pub dup_seen: Vec<bool>,
}

pub fn order_hash(d: &[EvId]) -> u64 {
    let mut h = util::LogHash::new();
    for (k, r, f, t) in d {
        h.u64(*k as u64);
        h.u64(*r as u64);
        h.u64(*f as u64);
        h.u64(*t as u64);
    }
    h.finish()
}

fn canonical_rank(k: u8, r: usize, f: usize, t: usize) -> u64 {
    (((r * 3 + k as usize) * 64 + f) * 64 + t) as u64
}

/// Drive one session over the simulated network.
pub fn drive(n: usize, io: &mut dyn SessionIo, plan: &FaultPlan, order: &Order, frag_seed: u64) -> NetOutcome {
    let rounds = io.rounds();
    let mut rng = Prng::new(match order {
        Order::Seeded(s) => *s,
        _ => 0,
    });
    let seeded = matches!(order, Order::Seeded(_));
    let mut frng = Prng::new(frag_seed);
    let mut q: BinaryHeap<Item> = BinaryHeap::new();
    let mut seq = 0u64;
    let mut now;
    let mut out = NetOutcome { complete: vec![false; n], crashed: vec![false; n], at_last_round: vec![false; n], dup_seen: vec![false; n], retx_seen: vec![false; n], ..Default::default() };
    let mut cur_round = vec![0usize; n];
    let mut got: Vec<Vec<BTreeSet<usize>>> = vec![vec![BTreeSet::new(); rounds]; n];
    let mut buffered: Vec<Vec<(usize, usize, Vec<u8>, bool)>> = vec![Vec::new(); n];
    // per (party, round): sends still to do / sends done (for the crash fault and a probe)
    let mut sends_done = vec![vec![0usize; rounds]; n];
    let mut sends_total = vec![vec![0usize; rounds]; n];
    let rank = |k: u8, r: usize, f: usize, t: usize| -> u64 {
        match order {
            Order::Forced(list) => list.iter().position(|x| *x == (k, r, f, t)).map(|p| p as u64).unwrap_or(1_000_000 + canonical_rank(k, r, f, t)),
            _ => canonical_rank(k, r, f, t),
        }
    };
    for p in 0..n {
        let at = if seeded { rng.below(50) } else { rank(0, 0, p, p) };
        q.push(Item { at, seq, ev: Ev::Start { party: p } });
        seq += 1;
    }
    let expected = |io: &dyn SessionIo, party: usize, round: usize| -> BTreeSet<usize> {
        if io.receivers(round).contains(&party) {
            io.senders(round).into_iter().filter(|&s| s != party).collect()
        } else {
            BTreeSet::new()
        }
    };
    let mut started = vec![false; n];

    // schedule the per-recipient sends of `party` for `round`
    #[allow(clippy::too_many_arguments)]
    fn schedule_sends(
        party: usize, round: usize, now: u64, seeded: bool, q: &mut BinaryHeap<Item>, seq: &mut u64, rng: &mut Prng, io: &dyn SessionIo,
        sends_total: &mut [Vec<usize>], rank: &dyn Fn(u8, usize, usize, usize) -> u64,
    ) {
        if !io.senders(round).contains(&party) {
            return;
        }
        let mut t = now;
        for to in io.receivers(round) {
            if to == party {
                continue;
            }
            sends_total[party][round] += 1;
            t = if seeded { t + rng.below(30) } else { rank(1, round, party, to) };
            q.push(Item { at: t, seq: *seq, ev: Ev::SendTo { round, from: party, to } });
            *seq += 1;
        }
    }

    while let Some(Item { at, ev, .. }) = q.pop() {
        now = at;
        out.events += 1;
        let who = match ev {
            Ev::Start { party } => {
                started[party] = true;
                out.history.push((0, 0, party, party));
                schedule_sends(party, 0, now, seeded, &mut q, &mut seq, &mut rng, io, &mut sends_total, &rank);
                party
            }
            Ev::SendTo { round, from, to } => {
                if out.crashed[from] {
                    continue;
                }
                if let Some((cp, cr, k)) = plan.crash {
                    if cp == from && cr == round && sends_done[from][round] >= k {
                        if !out.crashed[from] {
                            out.crash_fired += 1;
                        }
                        out.crashed[from] = true;
                        continue;
                    }
                }
                out.history.push((1, round, from, to));
                sends_done[from][round] += 1;
                let msg = match util::catch(|| io.send(from, round)) {
                    Caught::Ok(Ok(m)) => Some(m),
                    Caught::Ok(Err(e)) => {
                        out.unexpected.push((from, format!("send failed in round {}: {}", round, e)));
                        None
                    }
                    Caught::Panic(m) => {
                        out.unexpected.push((from, format!("send panicked in round {}: {}", round, m)));
                        None
                    }
                    Caught::Aborted => None,
                };
                if let Some(mut bytes) = msg {
                    if plan.lost.contains(&(round, from, to)) {
                        out.lost_fired += 1;
                    } else {
                        let at = if seeded { now + 1 + rng.below(100) } else { rank(2, round, from, to) };
                        if let Some(&k) = plan.truncated.get(&(round, from, to)) {
                            if k < bytes.len() {
                                if plan.retransmit.contains(&(round, from, to)) {
                                    // the full copy follows the cut one
                                    let at2 = if seeded { at + 1 + rng.below(150) } else { rank(3, round, from, to) };
                                    q.push(Item { at: at2, seq, ev: Ev::Deliver { round, from, to, bytes: bytes.clone(), dup: false } });
                                    seq += 1;
                                    out.retransmit_fired += 1;
                                    out.retx_seen[to] = true;
                                }
                                bytes.truncate(k);
                                out.truncated_fired += 1;
                            }
                        }
                        if plan.dup.contains(&(round, from, to)) {
                            let at2 = if seeded { at + 1 + rng.below(150) } else { rank(3, round, from, to) };
                            q.push(Item { at: at2, seq, ev: Ev::Deliver { round, from, to, bytes: bytes.clone(), dup: true } });
                            seq += 1;
                        }
                        q.push(Item { at, seq, ev: Ev::Deliver { round, from, to, bytes, dup: false } });
                        seq += 1;
                    }
                }
                // a party whose crash point lies at or beyond the end of its broadcast stops right after it
                if let Some((cp, cr, _)) = plan.crash {
                    if cp == from && cr == round && sends_done[from][round] == sends_total[from][round] {
                        out.crashed[from] = true;
                    }
                }
                from
            }
            Ev::Deliver { round, from, to, bytes, dup } => {
                if out.crashed[to] {
                    continue;
                }
                if round < cur_round[to] {
                    // a late copy of a message of a round the party has left: the application drops it
                    continue;
                }
                if round > cur_round[to] || !started[to] {
                    out.buffered_early += 1;
                }
                buffered[to].push((round, from, bytes, dup));
                to
            }
        };
        if !started[who] || out.crashed[who] {
            continue;
        }
        // pump: hand over every buffered message of the current local round, advance when the
        // round is complete, repeat
        loop {
            let cur = cur_round[who];
            let (due, later): (Vec<_>, Vec<_>) = std::mem::take(&mut buffered[who]).into_iter().partition(|m| m.0 == cur);
            buffered[who] = later;
            let had_due = !due.is_empty();
            for (round, from, bytes, dup) in due {
                if dup {
                    out.dup_fired += 1;
                    out.dup_seen[who] = true;
                    out.history.push((3, round, from, who));
                } else {
                    out.delivered.push((round, from, who));
                    out.history.push((2, round, from, who));
                }
                if sends_done[who][round] > 0 && sends_done[who][round] < sends_total[who][round] {
                    out.receive_between_own_sends += 1;
                }
                let script = if plan.fragment { Script::draw(&mut frng, false) } else { Script::clean() };
                let mut rd = FaultyReader::new(&bytes, script);
                let res = util::catch(|| io.recv(who, from, round, &mut rd));
                out.fragmented_reads += rd.fired.short as u64;
                match res {
                    Caught::Ok(Ok(())) => {
                        got[who][round].insert(from);
                    }
                    // an io error or a panic while reading is "message not received"
                    Caught::Ok(Err(_)) | Caught::Panic(_) => out.recv_errors += 1,
                    Caught::Aborted => {}
                }
            }
            // a party moves on only after it has written all its own messages of the round
            let own_sends_finished = sends_done[who][cur] == sends_total[who][cur];
            if cur < rounds - 1 && own_sends_finished && got[who][cur] == expected(io, who, cur) {
                let next = cur + 1;
                match util::catch(|| io.advance(who, next)) {
                    Caught::Ok(()) => {}
                    Caught::Panic(m) => {
                        out.unexpected.push((who, format!("local step into round {} panicked although every message had arrived: {}", next, m)));
                        break;
                    }
                    Caught::Aborted => break,
                }
                cur_round[who] = next;
                schedule_sends(who, next, now, seeded, &mut q, &mut seq, &mut rng, io, &mut sends_total, &rank);
                continue;
            }
            if !had_due {
                break;
            }
        }
    }

    for p in 0..n {
        out.at_last_round[p] = cur_round[p] == rounds - 1;
        out.complete[p] = !out.crashed[p] && out.at_last_round[p] && (0..rounds).all(|r| got[p][r] == expected(io, p, r));
        // a live party stuck before the last round with missing messages: the application now asks it
        // to go on anyway; the protocol object must refuse
        if !out.crashed[p] && !out.at_last_round[p] {
            let next = cur_round[p] + 1;
            let r = match util::catch(|| io.advance(p, next)) {
                Caught::Ok(()) => Ok(()),
                Caught::Panic(m) => Err(m),
                Caught::Aborted => Err("aborted".into()),
            };
            out.advance_on_incomplete.push((p, r));
        }
    }
    let canon: Vec<(usize, usize, usize)> = {
        let mut c = out.delivered.clone();
        c.sort();
        c
    };
    out.out_of_index_order = canon != out.delivered;
    out
}
