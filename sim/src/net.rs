//! Network world: a discrete-event loop that plays the transport between protocol parties.
//! A broadcast becomes n-1 point-to-point deliveries with independent PRNG latencies, so any
//! permutation of the messages of a round — and overlap of round r+1 of a fast party with round r
//! of a slow one — can occur. The node wrapper (this file, playing the application) buffers a
//! message whose round has not started locally. Faults: loss, truncation, sender crash in the
//! middle of a broadcast, fragmented delivery.

use crate::io_fault::{FaultyReader, Script};
use crate::prng::Prng;
use crate::util::{self, Caught};
use serde_json::{json, Value};
use std::collections::{BTreeMap, BTreeSet, BinaryHeap};

/// One protocol session seen from the transport: who sends / receives in each round and the
/// three calls the application makes on each party's protocol object.
pub trait SessionIo {
    fn rounds(&self) -> usize;
    fn senders(&self, round: usize) -> Vec<usize>;
    fn receivers(&self, round: usize) -> Vec<usize>;
    fn send(&mut self, party: usize, round: usize) -> Result<Vec<u8>, String>;
    fn recv(&mut self, to: usize, from: usize, round: usize, r: &mut FaultyReader) -> std::io::Result<()>;
    /// local computation between rounds (e.g. step2); called when `party` enters `round`
    fn advance(&mut self, party: usize, round: usize);
}

#[derive(Clone, Debug, Default, PartialEq)]
pub struct FaultPlan {
    /// (round, from, to) messages that are lost
    pub lost: BTreeSet<(usize, usize, usize)>,
    /// (round, from, to) -> the message is cut after this many bytes
    pub truncated: BTreeMap<(usize, usize, usize), usize>,
    /// (party, round, k): the party crashes in `round` after sending to k recipients
    pub crash: Option<(usize, usize, usize)>,
    /// deliver through fragmenting readers
    pub fragment: bool,
}

impl FaultPlan {
    pub fn is_empty(&self) -> bool {
        self.lost.is_empty() && self.truncated.is_empty() && self.crash.is_none()
    }
    pub fn to_json(&self) -> Value {
        json!({
            "lost": self.lost.iter().map(|(r, f, t)| json!([r, f, t])).collect::<Vec<_>>(),
            "truncated": self.truncated.iter().map(|((r, f, t), k)| json!([r, f, t, k])).collect::<Vec<_>>(),
            "crash": self.crash.map(|(p, r, k)| json!([p, r, k])),
            "fragment": self.fragment,
        })
    }
    pub fn from_json(v: &Value) -> Option<Self> {
        let mut p = FaultPlan::default();
        for x in v["lost"].as_array()? {
            let a = x.as_array()?;
            p.lost.insert((a[0].as_u64()? as usize, a[1].as_u64()? as usize, a[2].as_u64()? as usize));
        }
        for x in v["truncated"].as_array()? {
            let a = x.as_array()?;
            p.truncated.insert((a[0].as_u64()? as usize, a[1].as_u64()? as usize, a[2].as_u64()? as usize), a[3].as_u64()? as usize);
        }
        if let Some(a) = v["crash"].as_array() {
            p.crash = Some((a[0].as_u64()? as usize, a[1].as_u64()? as usize, a[2].as_u64()? as usize));
        }
        p.fragment = v["fragment"].as_bool().unwrap_or(false);
        Some(p)
    }
}

/// How deliveries are ordered.
#[derive(Clone, Debug, PartialEq)]
pub enum Order {
    /// latencies drawn from the PRNG
    Seeded(u64),
    /// replay: explicit delivery order as (round, from, to); anything not listed follows in canonical order
    Forced(Vec<(usize, usize, usize)>),
    /// canonical index order
    Canonical,
}

#[derive(Debug)]
enum Ev {
    Start { party: usize },
    Deliver { round: usize, from: usize, to: usize, bytes: Vec<u8>, cut: bool },
}

struct Item {
    at: u64,
    seq: u64,
    ev: Ev,
}
impl PartialEq for Item {
    fn eq(&self, o: &Self) -> bool {
        (self.at, self.seq) == (o.at, o.seq)
    }
}
impl Eq for Item {}
impl PartialOrd for Item {
    fn partial_cmp(&self, o: &Self) -> Option<std::cmp::Ordering> {
        Some(self.cmp(o))
    }
}
impl Ord for Item {
    fn cmp(&self, o: &Self) -> std::cmp::Ordering {
        // BinaryHeap is a max-heap: reverse
        (o.at, o.seq).cmp(&(self.at, self.seq))
    }
}

#[derive(Debug, Default)]
pub struct NetOutcome {
    /// the party received every message of every round it participates in as receiver
    pub complete: Vec<bool>,
    pub crashed: Vec<bool>,
    /// the party reached the last round (all advances done)
    pub at_last_round: Vec<bool>,
    /// delivery order actually used
    pub delivered: Vec<(usize, usize, usize)>,
    pub events: u64,
    pub lost_fired: u64,
    pub truncated_fired: u64,
    pub crash_fired: u64,
    pub fragmented_reads: u64,
    pub buffered_early: u64,
    pub out_of_index_order: bool,
    /// a local API call panicked where it must not (message, party)
    pub unexpected: Vec<(usize, String)>,
    /// parties that were asked to advance although messages were missing, with the outcome
    pub advance_on_incomplete: Vec<(usize, Result<(), String>)>,
    pub recv_errors: u64,
}

pub fn order_hash(d: &[(usize, usize, usize)]) -> u64 {
    let mut h = util::LogHash::new();
    for (r, f, t) in d {
        h.u64(*r as u64);
        h.u64(*f as u64);
        h.u64(*t as u64);
    }
    h.finish()
}

/// Drive one session over the simulated network.
pub fn drive(n: usize, io: &mut dyn SessionIo, plan: &FaultPlan, order: &Order, frag_seed: u64) -> NetOutcome {
    let rounds = io.rounds();
    let mut rng = Prng::new(match order {
        Order::Seeded(s) => *s,
        _ => 0,
    });
    let mut frng = Prng::new(frag_seed);
    let mut q: BinaryHeap<Item> = BinaryHeap::new();
    let mut seq = 0u64;
    let mut now;
    let mut out = NetOutcome { complete: vec![false; n], crashed: vec![false; n], at_last_round: vec![false; n], ..Default::default() };
    let mut cur_round = vec![0usize; n];
    let mut got: Vec<Vec<BTreeSet<usize>>> = vec![vec![BTreeSet::new(); rounds]; n];
    let mut buffered: Vec<Vec<(usize, usize, Vec<u8>, bool)>> = vec![Vec::new(); n];
    let forced_rank = |r: usize, f: usize, t: usize| -> u64 {
        match order {
            Order::Forced(list) => list.iter().position(|x| *x == (r, f, t)).map(|p| p as u64).unwrap_or(1_000_000 + ((r * 64 + f) * 64 + t) as u64),
            _ => ((r * 64 + f) * 64 + t) as u64,
        }
    };
    for p in 0..n {
        let at = match order {
            Order::Seeded(_) => rng.below(50),
            _ => 0,
        };
        q.push(Item { at, seq, ev: Ev::Start { party: p } });
        seq += 1;
    }

    // broadcast helper
    fn broadcast(
        io: &mut dyn SessionIo, party: usize, round: usize, now: u64, plan: &FaultPlan, order: &Order, rng: &mut Prng,
        q: &mut BinaryHeap<Item>, seq: &mut u64, out: &mut NetOutcome, forced_rank: &dyn Fn(usize, usize, usize) -> u64,
    ) {
        if !io.senders(round).contains(&party) {
            return;
        }
        let msg = match util::catch(|| io.send(party, round)) {
            Caught::Ok(Ok(m)) => m,
            Caught::Ok(Err(e)) => {
                out.unexpected.push((party, format!("send failed in round {}: {}", round, e)));
                return;
            }
            Caught::Panic(m) => {
                out.unexpected.push((party, format!("send panicked in round {}: {}", round, m)));
                return;
            }
            Caught::Aborted => return,
        };
        let mut sent = 0usize;
        for to in io.receivers(round) {
            if to == party {
                continue;
            }
            if let Some((cp, cr, k)) = plan.crash {
                if cp == party && cr == round && sent >= k {
                    out.crashed[party] = true;
                    out.crash_fired += 1;
                    return;
                }
            }
            sent += 1;
            if plan.lost.contains(&(round, party, to)) {
                out.lost_fired += 1;
                continue;
            }
            let mut bytes = msg.clone();
            let mut cut = false;
            if let Some(&k) = plan.truncated.get(&(round, party, to)) {
                if k < bytes.len() {
                    bytes.truncate(k);
                    cut = true;
                    out.truncated_fired += 1;
                }
            }
            let at = match order {
                Order::Seeded(_) => now + 1 + rng.below(100),
                _ => forced_rank(round, party, to),
            };
            q.push(Item { at, seq: *seq, ev: Ev::Deliver { round, from: party, to, bytes, cut } });
            *seq += 1;
        }
        if let Some((cp, cr, _)) = plan.crash {
            if cp == party && cr == round {
                // crashed after (or exactly at the end of) its broadcast: it takes no further part
                out.crashed[party] = true;
            }
        }
    }

    let expected = |io: &dyn SessionIo, party: usize, round: usize| -> BTreeSet<usize> {
        if io.receivers(round).contains(&party) {
            io.senders(round).into_iter().filter(|&s| s != party).collect()
        } else {
            BTreeSet::new()
        }
    };

    let mut started = vec![false; n];
    while let Some(Item { at, ev, .. }) = q.pop() {
        now = at;
        out.events += 1;
        let who = match ev {
            Ev::Start { party } => {
                started[party] = true;
                broadcast(io, party, 0, now, plan, order, &mut rng, &mut q, &mut seq, &mut out, &forced_rank);
                party
            }
            Ev::Deliver { round, from, to, bytes, cut } => {
                if out.crashed[to] {
                    continue;
                }
                if round > cur_round[to] || !started[to] {
                    out.buffered_early += 1;
                }
                buffered[to].push((round, from, bytes, cut));
                to
            }
        };
        if !started[who] || out.crashed[who] {
            continue;
        }
        // pump: hand over every buffered message of the current local round, advance when the
        // round is complete, repeat
        loop {
            let cur = cur_round[who];
            let (due, later): (Vec<_>, Vec<_>) = std::mem::take(&mut buffered[who]).into_iter().partition(|m| m.0 == cur);
            buffered[who] = later;
            let had_due = !due.is_empty();
            for (round, from, bytes, _cut) in due {
                out.delivered.push((round, from, who));
                let script = if plan.fragment { Script::draw(&mut frng, false) } else { Script::clean() };
                let mut rd = FaultyReader::new(&bytes, script);
                let res = util::catch(|| io.recv(who, from, round, &mut rd));
                out.fragmented_reads += rd.fired.short as u64;
                match res {
                    Caught::Ok(Ok(())) => {
                        got[who][round].insert(from);
                    }
                    // an io error or a panic while reading is "message not received"
                    Caught::Ok(Err(_)) | Caught::Panic(_) => out.recv_errors += 1,
                    Caught::Aborted => {}
                }
            }
            if cur < rounds - 1 && got[who][cur] == expected(io, who, cur) {
                let next = cur + 1;
                match util::catch(|| io.advance(who, next)) {
                    Caught::Ok(()) => {}
                    Caught::Panic(m) => {
                        out.unexpected.push((who, format!("local step into round {} panicked although every message had arrived: {}", next, m)));
                        break;
                    }
                    Caught::Aborted => break,
                }
                cur_round[who] = next;
                broadcast(io, who, next, now, plan, order, &mut rng, &mut q, &mut seq, &mut out, &forced_rank);
                if out.crashed[who] {
                    break;
                }
                continue;
            }
            if !had_due {
                break;
            }
        }
    }

    for p in 0..n {
        out.at_last_round[p] = cur_round[p] == rounds - 1;
        out.complete[p] = !out.crashed[p] && out.at_last_round[p] && (0..rounds).all(|r| got[p][r] == expected(io, p, r));
        // a live party stuck before the last round with missing messages: the application now asks it
        // to go on anyway; the protocol object must refuse
        if !out.crashed[p] && !out.at_last_round[p] {
            let next = cur_round[p] + 1;
            let r = match util::catch(|| io.advance(p, next)) {
                Caught::Ok(()) => Ok(()),
                Caught::Panic(m) => Err(m),
                Caught::Aborted => Err("aborted".into()),
            };
            out.advance_on_incomplete.push((p, r));
        }
    }
    let canon: Vec<(usize, usize, usize)> = {
        let mut c = out.delivered.clone();
        c.sort();
        c
    };
    out.out_of_index_order = canon != out.delivered;
    out
}
