//! The `app::rns_plain` wrappers (one component per plaintext modulus, each in its own context) for
//! C14 and C15. They delegate component-wise to the serializers of the base types, but the
//! wrappers have their own size functions, their own vector impl and their own terms / full
//! entry points, so they get the same treatment: framing, sizes, equality in independently built
//! contexts (C14) and the full fault sweep (C15).

use crate::gen::{self, ParamSpec, World, BGV, BFV};
use crate::io_fault::{FaultyReader, FaultyWriter, Script};
use crate::objs::{self, Obj};
use crate::prng::Prng;
use crate::util::{self, catch, catch_res, Caught};
use heathcliff::app::rns_plain::*;
use heathcliff::*;
use serde_json::{json, Value};
use std::io::{self, Read, Write};

pub struct RWorld {
    pub specs: Vec<ParamSpec>,
    pub worlds: Vec<World>,
    pub own: RnspHeContext,
    /// contexts built independently from the same parameters (the receiving side)
    pub peer: RnspHeContext,
}

#[derive(Clone)]
pub enum RObj {
    Ct(RnspCiphertext),
    CtFull(RnspCiphertext),
    CtTerms(RnspCiphertext, Vec<usize>),
    Pk(RnspPublicKey),
    Relin(RnspRelinKeys),
    Galois(RnspGaloisKeys),
    VecCt(Vec<RnspCiphertext>),
}

pub const KINDS: &[&str] = &["ct", "ctfull", "ctterms", "pk", "relin", "galois", "vecct"];

#[derive(Clone, Debug)]
pub struct RScn {
    pub specs: Vec<ParamSpec>,
    pub ent: u64,
    pub kind: String,
    pub obj_seed: u64,
}

impl RScn {
    pub fn to_json(&self) -> Value {
        json!({"rnsp": true, "specs": self.specs.iter().map(|s| s.to_json()).collect::<Vec<_>>(), "entropy_seed": self.ent, "kind": self.kind, "obj_seed": self.obj_seed})
    }
    pub fn from_json(v: &Value) -> Option<Self> {
        Some(RScn {
            specs: v["specs"].as_array()?.iter().map(ParamSpec::from_json).collect::<Option<Vec<_>>>()?,
            ent: v["entropy_seed"].as_u64()?,
            kind: v["kind"].as_str()?.to_string(),
            obj_seed: v["obj_seed"].as_u64()?,
        })
    }
}

/// Two parameter sets that differ only in the plain modulus.
pub fn draw_specs(rng: &mut Prng) -> Option<Vec<ParamSpec>> {
    let scheme = *rng.pick(&[BFV, BGV]);
    let n = *rng.pick(&[8usize, 16, 32]);
    let factor = 2 * n as u64;
    let k = rng.range(2, 3);
    let mut q = Vec::new();
    for _ in 0..k {
        let bits = *rng.pick(&[17usize, 24, 25, 33, 40, 41, 57, 60]);
        q.push(gen::find_prime(rng, factor, bits, &q)?);
    }
    let comps = rng.range(2, 3);
    let mut ts = Vec::new();
    for _ in 0..comps {
        let mut ex = q.clone();
        ex.extend(ts.iter().cloned());
        let tb = *rng.pick(&[8usize, 9, 13]);
        ts.push(gen::find_prime(rng, factor, tb, &ex)?);
    }
    Some(ts.into_iter().map(|t| ParamSpec { scheme, n, q: q.clone(), t, expand_chain: true, special_enc: false }).collect())
}

pub fn build_rworld(specs: &[ParamSpec]) -> Result<RWorld, String> {
    let worlds = specs.iter().map(gen::build_world).collect::<Result<Vec<_>, _>>()?;
    let own = RnspHeContext { components: worlds.iter().map(|w| w.ctx.clone()).collect() };
    let peer = RnspHeContext { components: specs.iter().map(gen::build_context).collect::<Result<Vec<_>, _>>()? };
    Ok(RWorld { specs: specs.to_vec(), worlds, own, peer })
}

fn rct(rng: &mut Prng, rw: &RWorld, allow_seed: bool, max_size: usize) -> RnspCiphertext {
    // the same shape in every component (as the real encryptor produces), own randomness each
    let mode = rng.below(if allow_seed { 4 } else { 3 });
    let size = rng.range(2, max_size.max(2));
    let lvl = rng.usize_below(rw.worlds[0].data_levels().len());
    let comps = rw
        .worlds
        .iter()
        .map(|w| match mode {
            0 => w.encryptor.encrypt_new(&w.random_plain(rng)),
            1 => {
                let mut c = Ciphertext::new();
                w.encryptor.encrypt_symmetric(&w.random_plain(rng), &mut c);
                c
            }
            2 => w.synthetic_cipher(rng, size, w.data_levels()[lvl], w.default_ntt()),
            _ => w.encryptor.encrypt_symmetric_new(&w.random_plain(rng)),
        })
        .collect();
    RnspCiphertext::from_raw_parts(comps)
}

pub fn gen_robj(rng: &mut Prng, rw: &RWorld, kind: &str) -> Option<RObj> {
    let n = rw.specs[0].n;
    let ks = rw.worlds[0].uses_keyswitching();
    Some(match kind {
        "ct" => RObj::Ct(rct(rng, rw, true, 4)),
        "ctfull" => RObj::CtFull(rct(rng, rw, true, 4)),
        "ctterms" => RObj::CtTerms(rct(rng, rw, true, 3), objs::gen_terms(rng, n)),
        "pk" => {
            let seed = rng.coin();
            RObj::Pk(RnspPublicKey::from_raw_parts(rw.worlds.iter().map(|w| w.keygen.create_public_key(seed)).collect()))
        }
        "relin" => {
            if !ks {
                return None;
            }
            let seed = rng.coin();
            RObj::Relin(RnspRelinKeys::from_raw_parts(rw.worlds.iter().map(|w| w.keygen.create_relin_keys(seed)).collect()))
        }
        "galois" => {
            if !ks {
                return None;
            }
            let seed = rng.coin();
            let elts: Vec<usize> = (0..rng.range(0, 2)).map(|_| 2 * rng.usize_below(n) + 1).collect();
            RObj::Galois(RnspGaloisKeys::from_raw_parts(rw.worlds.iter().map(|w| w.keygen.create_galois_keys_from_elts(&elts, seed)).collect()))
        }
        "vecct" => {
            let k = rng.range(0, 3);
            RObj::VecCt((0..k).map(|_| rct(rng, rw, true, 3)).collect())
        }
        _ => return None,
    })
}

impl RObj {
    pub fn name(&self) -> &'static str {
        match self {
            RObj::Ct(_) => "RnspCiphertext",
            RObj::CtFull(_) => "RnspCiphertext.full",
            RObj::CtTerms(..) => "RnspCiphertext.terms",
            RObj::Pk(_) => "RnspPublicKey",
            RObj::Relin(_) => "RnspRelinKeys",
            RObj::Galois(_) => "RnspGaloisKeys",
            RObj::VecCt(_) => "Vec_RnspCiphertext_",
        }
    }
    pub fn ser<W: Write>(&self, ctx: &RnspHeContext, w: &mut W) -> io::Result<usize> {
        match self {
            RObj::Ct(c) => c.serialize(ctx, w),
            RObj::CtFull(c) => c.serialize_full(ctx, w),
            RObj::CtTerms(c, t) => c.serialize_terms(ctx, t, w),
            RObj::Pk(k) => k.serialize(ctx, w),
            RObj::Relin(k) => k.serialize(ctx, w),
            RObj::Galois(k) => k.serialize(ctx, w),
            RObj::VecCt(v) => v.serialize(ctx, w),
        }
    }
    /// `like` tells the type (and the term list) to read.
    pub fn de<R: Read>(like: &RObj, ctx: &RnspHeContext, r: &mut R) -> io::Result<RObj> {
        Ok(match like {
            RObj::Ct(_) => RObj::Ct(RnspCiphertext::deserialize(ctx, r)?),
            RObj::CtFull(_) => RObj::CtFull(RnspCiphertext::deserialize_full(ctx, r)?),
            RObj::CtTerms(_, t) => RObj::CtTerms(RnspCiphertext::deserialize_terms(ctx, t, r)?, t.clone()),
            RObj::Pk(_) => RObj::Pk(RnspPublicKey::deserialize(ctx, r)?),
            RObj::Relin(_) => RObj::Relin(RnspRelinKeys::deserialize(ctx, r)?),
            RObj::Galois(_) => RObj::Galois(RnspGaloisKeys::deserialize(ctx, r)?),
            RObj::VecCt(_) => RObj::VecCt(Vec::<RnspCiphertext>::deserialize(ctx, r)?),
        })
    }
    pub fn announced_size(&self, ctx: &RnspHeContext) -> usize {
        match self {
            RObj::Ct(c) => c.serialized_size(ctx),
            RObj::CtFull(c) => c.serialized_full_size(ctx),
            RObj::CtTerms(c, t) => c.serialized_terms_size(ctx, t.len()),
            RObj::Pk(k) => k.serialized_size(ctx),
            RObj::Relin(k) => k.serialized_size(ctx),
            RObj::Galois(k) => k.serialized_size(ctx),
            RObj::VecCt(v) => v.serialized_size(ctx),
        }
    }
    /// Component-wise view as objects of the base model (which knows expected forms and equality).
    fn parts(&self) -> Vec<Obj> {
        match self {
            RObj::Ct(c) | RObj::CtFull(c) => c.components.iter().map(|x| Obj::Ct(x.clone())).collect(),
            RObj::CtTerms(c, t) => c.components.iter().map(|x| Obj::CtTerms(x.clone(), t.clone())).collect(),
            RObj::Pk(k) => k.components.iter().map(|x| Obj::Pk(x.clone())).collect(),
            RObj::Relin(k) => k.components.iter().map(|x| Obj::Relin(x.clone())).collect(),
            RObj::Galois(k) => k.components.iter().map(|x| Obj::Galois(x.clone())).collect(),
            RObj::VecCt(v) => v.iter().flat_map(|c| c.components.iter().map(|x| Obj::Ct(x.clone()))).collect(),
        }
    }
    /// Is `got` what a correct deserialization of `self` yields? (expected forms computed in `own`)
    pub fn restored_ok(&self, got: &RObj, own: &RnspHeContext) -> Result<(), String> {
        let a = self.parts();
        let b = got.parts();
        if a.len() != b.len() {
            return Err(format!("{} components / elements expected, {} restored", a.len(), b.len()));
        }
        let k = own.components.len();
        for (i, (x, y)) in a.iter().zip(b.iter()).enumerate() {
            let ctx = &own.components[i % k];
            let exp = catch_res(|| x.expected_restored(ctx))?;
            exp.same(y).map_err(|e| format!("component {}: {}", i, e))?;
        }
        Ok(())
    }
    pub fn class(&self) -> String {
        let p = self.parts();
        format!("{}/{}", self.name(), p.first().map(|o| o.class()).unwrap_or_else(|| "empty".into()))
    }
}

pub struct RMat {
    pub rw: RWorld,
    pub obj: RObj,
    pub enc: Vec<u8>,
    pub consumed: usize,
}

pub fn materialise(scn: &RScn) -> Result<RMat, String> {
    gen::with_entropy(scn.ent, |_| {
        let rw = build_rworld(&scn.specs)?;
        let mut rng = Prng::new(scn.obj_seed);
        let kind = scn.kind.clone();
        let obj = match catch_res(|| gen_robj(&mut rng, &rw, &kind)) {
            Ok(Some(o)) => o,
            Ok(None) => return Err("kind not available".into()),
            Err(e) => return Err(format!("generator panicked: {}", e)),
        };
        let mut enc = Vec::new();
        match catch_res(|| obj.ser(&rw.own, &mut enc)) {
            Ok(Ok(_)) => {}
            Ok(Err(e)) => return Err(format!("reference serialization failed: {}", e)),
            Err(e) => return Err(format!("reference serialization panicked: {}", e)),
        }
        let mut rd = FaultyReader::new(&enc, Script::clean());
        let consumed = match catch_res(|| RObj::de(&obj, &rw.peer, &mut rd)) {
            Ok(Ok(o)) => {
                if obj.restored_ok(&o, &rw.own).is_err() {
                    return Err("clean round trip differs (C14 territory)".into());
                }
                rd.pos
            }
            Ok(Err(e)) => return Err(format!("clean deserialization failed: {}", e)),
            Err(e) => return Err(format!("clean deserialization panicked: {}", e)),
        };
        Ok(RMat { rw, obj, enc, consumed })
    })
}

/// One C15 fault case on an Rnsp object: (class, detail) if the statement is violated.
pub fn fault_case(m: &RMat, ser_side: bool, script: &Script) -> (Option<(String, String)>, crate::io_fault::Fired, &'static str) {
    if ser_side {
        let mut fw = FaultyWriter::new(script.clone());
        let res = catch(|| m.obj.ser(&m.rw.own, &mut fw));
        let fired = fw.fired.clone();
        match res {
            Caught::Panic(msg) => (Some(("panic".into(), format!("serialize panicked: {}", msg))), fired, "panic"),
            Caught::Aborted => (None, fired, "aborted"),
            Caught::Ok(Err(_)) => (None, fired, "err"),
            Caught::Ok(Ok(n)) => {
                if fw.sink == m.enc && n == m.enc.len() {
                    (None, fired, "ok-complete")
                } else if fw.sink == m.enc {
                    (Some(("wrong-count".into(), format!("serialize returned Ok({}) but {} bytes were transmitted", n, m.enc.len()))), fired, "ok-bad")
                } else {
                    (
                        Some(("silent-truncation".into(), format!("serialize returned Ok({}) but the sink holds {} bytes while the complete encoding has {}", n, fw.sink.len(), m.enc.len()))),
                        fired,
                        "ok-bad",
                    )
                }
            }
        }
    } else {
        let mut rd = FaultyReader::new(&m.enc, script.clone());
        let res = catch(|| RObj::de(&m.obj, &m.rw.peer, &mut rd));
        let fired = rd.fired.clone();
        let incomplete = script.eof_at.map(|k| k < m.consumed).unwrap_or(false) || script.fail_at.map(|k| k < m.consumed).unwrap_or(false);
        match res {
            Caught::Panic(msg) => (Some(("panic".into(), format!("deserialize panicked: {}", msg))), fired, "panic"),
            Caught::Aborted => (None, fired, "aborted"),
            Caught::Ok(Err(_)) => (None, fired, "err"),
            Caught::Ok(Ok(o)) => {
                if incomplete {
                    (Some(("ok-on-truncated".into(), format!("deserialize returned Ok although the stream stopped at offset {} of {}", script.eof_at.or(script.fail_at).unwrap(), m.consumed))), fired, "ok-bad")
                } else {
                    match m.obj.restored_ok(&o, &m.rw.own) {
                        Ok(()) => (None, fired, "ok-complete"),
                        Err(d) => (Some(("wrong-object".into(), format!("fragmented but complete stream restored a different object: {}", d))), fired, "ok-bad"),
                    }
                }
            }
        }
    }
}

/// C14 deployment of Rnsp objects: several of them back-to-back through fragmenting pipes into
/// independently built contexts. Returns (key, class, detail) findings and the number of objects.
pub fn deployment(specs: &[ParamSpec], ent: u64, objects: &[(String, u64)], wscript: &Script, rscript: &Script) -> Result<(Vec<(String, String, String)>, u64), String> {
    gen::with_entropy(ent, |_| {
        let rw = build_rworld(specs)?;
        let mut objs_v = Vec::new();
        for (kind, seed) in objects {
            let mut r = Prng::new(*seed);
            if let Ok(Some(o)) = catch_res(|| gen_robj(&mut r, &rw, kind)) {
                objs_v.push(o);
            }
        }
        let mut found = Vec::new();
        let mut fw = FaultyWriter::new(wscript.clone());
        let mut bounds = vec![0usize];
        let mut ann = Vec::new();
        for o in &objs_v {
            let a = catch_res(|| o.announced_size(&rw.own))?;
            let before = fw.sink.len();
            match catch_res(|| o.ser(&rw.own, &mut fw)) {
                Ok(Ok(n)) => {
                    let wrote = fw.sink.len() - before;
                    if n != wrote {
                        found.push((format!("{}/returned-count-differs", o.name()), "returned-count-differs".into(), format!("{}: returned {}, wrote {}", o.class(), n, wrote)));
                    }
                    if a != wrote {
                        found.push((format!("{}/announced-size-differs", o.name()), "announced-size-differs".into(), format!("{}: announced {}, wrote {}", o.class(), a, wrote)));
                    }
                }
                Ok(Err(e)) => {
                    found.push((format!("{}/serialize-failed", o.name()), "serialize-failed".into(), format!("{}: {}", o.class(), e)));
                    return Ok((found, 0));
                }
                Err(p) => {
                    found.push((format!("{}/serialize-panicked", o.name()), "serialize-panicked".into(), format!("{}: {}", o.class(), p)));
                    return Ok((found, 0));
                }
            }
            ann.push(a);
            bounds.push(fw.sink.len());
        }
        let stream = fw.sink;
        let mut rd = FaultyReader::new(&stream, rscript.clone());
        let mut checked = 0u64;
        for (i, o) in objs_v.iter().enumerate() {
            if rd.pos != bounds[i] {
                found.push(("stream/framing-lost".into(), "framing-lost".into(), format!("Rnsp object {} ({}) should start at {}, reader is at {}", i, o.class(), bounds[i], rd.pos)));
                break;
            }
            let start = rd.pos;
            match catch_res(|| RObj::de(o, &rw.peer, &mut rd)) {
                Ok(Ok(g)) => {
                    if rd.pos - start != ann[i] {
                        found.push((format!("{}/consumed-size-differs", o.name()), "consumed-size-differs".into(), format!("{}: announced/wrote {}, consumed {}", o.class(), ann[i], rd.pos - start)));
                    }
                    if let Err(d) = o.restored_ok(&g, &rw.own) {
                        found.push((format!("{}/restored-differs", o.name()), "restored-differs".into(), format!("{} restored in independently built contexts: {}", o.class(), d)));
                    }
                    checked += 1;
                }
                Ok(Err(e)) => {
                    found.push((format!("{}/deserialize-failed", o.name()), "deserialize-failed".into(), format!("{}: {}", o.class(), e)));
                    break;
                }
                Err(p) => {
                    found.push((format!("{}/deserialize-panicked", o.name()), "deserialize-panicked".into(), format!("{}: {}", o.class(), p)));
                    break;
                }
            }
        }
        Ok((found, checked))
    })
}

pub fn hash_class(s: &str) -> u64 {
    util::h64(s.as_bytes())
}
