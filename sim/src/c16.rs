//! C16 — seeded expansion reproducible, draws fresh, samples well-formed.
//!
//! Three sub-checks, one evidence file:
//!  1. generator histories vs. a reference model (BlakeRNG, real code): same seed + same call
//!     history => same outputs; chunking independence across refill boundaries; no repeated
//!     16-byte window; different seeds differ;
//!  2. freshness over operation histories through the entropy seam: no two outputs share mask or
//!     stored seed, equal explicit generator states give equal masks; sequential and on 2-3
//!     simulated threads; well-formed noise of real encryptions;
//!  3. sampler well-formedness under adversarial random streams through the generic Rng seam, and
//!     chi-square tests on honest streams.

use crate::driver::{self, Batch, Report, RunOut, Tier, Violation};
use crate::gen::{self, ParamSpec, SpecOpts, World, BFV, BGV, CKKS};
use crate::prng::{self, Prng};
use crate::sched::{self, Policy, SimConfig, Strategy};
use crate::util::{self, catch_res, Caught, LogHash};
use heathcliff::util::rlwe::sample;
use heathcliff::util::{BlakeRNG, PRNGSeed};
use heathcliff::*;
use rand::{RngCore, SeedableRng};
use serde_json::{json, Value};
use std::collections::BTreeMap;
use std::sync::Arc;

pub const PROP: &str = "C16";
const BUF: usize = 4096;

// =======================================================================================
// Sub-check 1: generator histories

#[derive(Clone, Debug, PartialEq)]
pub enum GOp {
    Fill(usize),
    U32,
    U64,
}

fn gops_json(ops: &[GOp]) -> Value {
    Value::Array(
        ops.iter()
            .map(|o| match o {
                GOp::Fill(n) => json!(n),
                GOp::U32 => json!("u32"),
                GOp::U64 => json!("u64"),
            })
            .collect(),
    )
}
fn gops_from(v: &Value) -> Option<Vec<GOp>> {
    v.as_array()?
        .iter()
        .map(|x| {
            if let Some(n) = x.as_u64() {
                Some(GOp::Fill(n as usize))
            } else {
                match x.as_str()? {
                    "u32" => Some(GOp::U32),
                    "u64" => Some(GOp::U64),
                    _ => None,
                }
            }
        })
        .collect()
}

fn run_history(seed: &[u8; 64], ops: &[GOp]) -> Vec<u8> {
    let mut g = BlakeRNG::from_seed(PRNGSeed(*seed));
    let mut out = Vec::new();
    for op in ops {
        match op {
            GOp::Fill(n) => {
                let start = out.len();
                out.resize(start + n, 0);
                g.fill_bytes(&mut out[start..]);
            }
            GOp::U32 => out.extend_from_slice(&g.next_u32().to_le_bytes()),
            GOp::U64 => out.extend_from_slice(&g.next_u64().to_le_bytes()),
        }
    }
    out
}

fn draw_len(rng: &mut Prng) -> usize {
    match rng.below(8) {
        0 | 1 => rng.range(1, 9),
        2 | 3 => rng.range(4085, 4102),
        4 => BUF * rng.range(1, 3),
        5 => rng.range(0, 1),
        _ => rng.range(10, 9000),
    }
}

/// Length drawn with the (approximate) stream position in view: one quarter of the reads end
/// exactly on, or one byte around, a refill boundary after draining a partly used buffer and
/// zero to three whole blocks.
fn draw_len_at(rng: &mut Prng, pos: usize) -> usize {
    if rng.chance(1, 4) {
        let to_boundary = (BUF - pos % BUF) % BUF;
        let len = to_boundary + BUF * rng.range(0, 3);
        match rng.below(6) {
            0 => len + 1,
            1 => len.saturating_sub(1),
            _ => len,
        }
    } else {
        draw_len(rng)
    }
}

struct G1 {
    seed: [u8; 64],
    ops: Vec<GOp>,
}

fn check_generator(g: &G1, deep: bool) -> (Vec<(String, String, String)>, BTreeMap<&'static str, u64>, u64) {
    let mut bad = Vec::new();
    let mut probes: BTreeMap<&'static str, u64> = BTreeMap::new();
    // (a) same seed, same history, second generator created and used interleaved with a third one
    let a = run_history(&g.seed, &g.ops);
    let mut other_seed = g.seed;
    other_seed[17] ^= 0x10;
    let _noise = run_history(&other_seed, &g.ops[..g.ops.len().min(3)]);
    let b = run_history(&g.seed, &g.ops);
    if a != b {
        let i = a.iter().zip(b.iter()).position(|(x, y)| x != y).unwrap_or(0);
        bad.push(("generator/same-seed-different-output".into(), "nondeterministic".into(), format!("two generators with the same seed and the same call history differ from output byte {}", i)));
    }
    // (a') the bytes this very history handed out never contain the same 16 bytes twice, at any
    //      two offsets (word reads skip bytes for alignment, they never go back)
    if a.len() >= 32 && a.len() <= 192 * 1024 {
        let mut seen = std::collections::HashMap::with_capacity(a.len());
        for off in 0..=a.len() - 16 {
            let k = u128::from_le_bytes(a[off..off + 16].try_into().unwrap());
            if let Some(prev) = seen.insert(k, off) {
                bad.push((
                    "generator/stream-repeats".into(),
                    "stream-repeats".into(),
                    format!("the call history {:?}.. received the same 16 bytes twice: at output offsets {} and {}", &g.ops[..g.ops.len().min(6)], prev, off),
                ));
                break;
            }
        }
    }
    // (b) chunking independence for fill-only histories
    let fill_only = g.ops.iter().all(|o| matches!(o, GOp::Fill(_)));
    let total: usize = g.ops.iter().map(|o| if let GOp::Fill(n) = o { *n } else { 0 }).sum();
    if fill_only {
        let one = run_history(&g.seed, &[GOp::Fill(total)]);
        if one != a {
            let i = a.iter().zip(one.iter()).position(|(x, y)| x != y).unwrap_or(0);
            bad.push((
                "generator/chunking-dependent".into(),
                "chunking-dependent".into(),
                format!("reading {} bytes in chunks {:?}.. gives a different stream than one read of the total, first at byte {} (refill boundary every {} bytes)", total, &g.ops[..g.ops.len().min(6)], i, BUF),
            ));
        }
        // probe: a read crossing a refill boundary at an unaligned position
        let mut pos = 0usize;
        for o in &g.ops {
            if let GOp::Fill(n) = o {
                if *n > 0 && pos / BUF != (pos + n - 1) / BUF && pos % BUF != 0 {
                    *probes.entry("probe.refill_crossed_by_unaligned_read").or_insert(0) += 1;
                }
                pos += n;
            }
        }
    }
    // (b') histories with word reads: everything handed out comes out of the one canonical byte
    //      stream of this seed, in order. Word reads may skip a few bytes (alignment, end of a
    //      block) and may be little- or big-endian views; nothing may come from anywhere else
    //      (a read past the end of the buffer hands out whatever lies behind it).
    if !fill_only {
        let words = g.ops.len() - g.ops.iter().filter(|o| matches!(o, GOp::Fill(_))).count();
        let canon = run_history(&g.seed, &[GOp::Fill(total + 16 * words + 64)]);
        let mut gen = BlakeRNG::from_seed(PRNGSeed(g.seed));
        let (mut lo, mut hi) = (0usize, 0usize);
        for (k, op) in g.ops.iter().enumerate() {
            let (out, word): (Vec<u8>, bool) = match op {
                GOp::Fill(n) => {
                    let mut v = vec![0u8; *n];
                    gen.fill_bytes(&mut v);
                    (v, false)
                }
                GOp::U32 => (gen.next_u32().to_le_bytes().to_vec(), true),
                GOp::U64 => (gen.next_u64().to_le_bytes().to_vec(), true),
            };
            let n = out.len();
            if n == 0 {
                continue;
            }
            let rev: Vec<u8> = out.iter().rev().cloned().collect();
            let mut cands = (lo..=hi + 8).filter(|&p| p + n <= canon.len() && (canon[p..p + n] == out[..] || (word && canon[p..p + n] == rev[..])));
            match cands.next() {
                None => {
                    bad.push((
                        "generator/output-not-from-stream".into(),
                        "output-not-from-stream".into(),
                        format!("call {} ({:?}) of the history {:?}.. returned {} bytes [{}] that do not occur in the generator's byte stream between offsets {} and {}", k, op, &g.ops[..g.ops.len().min(8)], n, util::excerpt(&out, 16), lo, hi + 8 + n),
                    ));
                    break;
                }
                Some(first) => {
                    let last = cands.last().unwrap_or(first);
                    lo = first + n;
                    hi = last + n;
                }
            }
        }
        *probes.entry("probe.mixed_history_checked_against_stream").or_insert(0) += 1;
    }
    // (c) no repeated 16-byte aligned window; seeds differing in one bit give different first blocks
    let span = if deep { 4 * 1024 * 1024 } else { 96 * 1024 };
    let long = run_history(&g.seed, &[GOp::Fill(span)]);
    let mut seen = std::collections::HashSet::with_capacity(span / 16);
    for (w, chunk) in long.chunks_exact(16).enumerate() {
        let k = u128::from_le_bytes(chunk.try_into().unwrap());
        if !seen.insert(k) {
            bad.push(("generator/stream-repeats".into(), "stream-repeats".into(), format!("the 16-byte window at offset {} already occurred earlier in the stream", w * 16)));
            break;
        }
    }
    let flipped = run_history(&other_seed, &[GOp::Fill(64)]);
    if flipped[..] == long[..64] {
        bad.push(("generator/seed-ignored".into(), "seed-ignored".into(), "two seeds differing in one bit produce the same first 64 bytes".into()));
    }
    // every one of the 64 seed bytes matters: first, last, the two around the middle (a 32-byte key
    // would end there) and one position derived from the seed itself
    let h = util::h64(&g.seed);
    for (pos, bit) in [(0usize, 0u8), (31, 7), (32, 0), (63, 7), ((h % 64) as usize, ((h >> 8) % 8) as u8)] {
        let mut s2 = g.seed;
        s2[pos] ^= 1 << bit;
        let f = run_history(&s2, &[GOp::Fill(64)]);
        if f[..] == long[..64] {
            bad.push((
                "generator/seed-ignored".into(),
                "seed-ignored".into(),
                format!("flipping bit {} of seed byte {} leaves the first 64 output bytes unchanged", bit, pos),
            ));
            break;
        }
    }
    // (d) informational: independent recomputation blake3_xof(seed || counter_le) per 4096-byte block
    let mut agree = 1u64;
    for blk in 0..(span / BUF).min(8) {
        let mut h = blake3::Hasher::new();
        h.update(&g.seed);
        h.update(&(blk as u64).to_le_bytes());
        let mut exp = vec![0u8; BUF];
        h.finalize_xof().fill(&mut exp);
        if exp[..] != long[blk * BUF..(blk + 1) * BUF] {
            agree = 0;
        }
    }
    *probes.entry("info.matches_blake3_xof_definition").or_insert(0) += agree;
    let mut lh = LogHash::new();
    lh.bytes(&a);
    lh.bytes(&long[..4096.min(long.len())]);
    (bad, probes, lh.finish())
}

// =======================================================================================
// Sub-check 2: freshness over operation histories

#[derive(Clone, Debug, PartialEq)]
pub enum FOp {
    NewKeygen,
    Pk { seed: bool },
    Relin { seed: bool },
    Galois { seed: bool, elt: usize },
    /// one call producing a large key set: the first `count` odd Galois elements (3, 5, 7, ...),
    /// or the default set of `create_galois_keys` when count = 0
    GaloisMany { seed: bool, count: usize },
    /// key-switching key towards a freshly generated secret key
    KSwitch { seed: bool },
    /// a second key generator built around the existing secret key (KeyGenerator::from_sk, as after
    /// restoring a key or update_secret_key) generates a public key and relinearization keys
    FromSk { seed: bool },
    EncPk { zero: bool },
    EncSym { seeded: bool, zero: bool },
    /// two symmetric encryptions handed generators created from the same explicit seed
    EncSymSameState { seed: u64 },
    /// two public-key encryptions handed generators created from the same explicit seed
    EncPkSameState { seed: u64 },
    /// the same explicit generator state handed to a seed-saving and to a non-saving operation
    MixedSeedSaving { seed: u64 },
    /// a seeded ciphertext and a seeded public key expanded in this context and in a second,
    /// independently built one ("expands identically on every machine")
    ExpandAcross,
}

fn fop_json(o: &FOp) -> Value {
    match o {
        FOp::NewKeygen => json!("new-keygen"),
        FOp::Pk { seed } => json!({"pk": seed}),
        FOp::Relin { seed } => json!({"relin": seed}),
        FOp::Galois { seed, elt } => json!({"galois": seed, "elt": elt}),
        FOp::GaloisMany { seed, count } => json!({"galois-many": seed, "count": count}),
        FOp::KSwitch { seed } => json!({"kswitch": seed}),
        FOp::FromSk { seed } => json!({"from-sk": seed}),
        FOp::EncPk { zero } => json!({"enc-pk-zero": zero}),
        FOp::EncSym { seeded, zero } => json!({"enc-sym-seeded": seeded, "zero": zero}),
        FOp::EncSymSameState { seed } => json!({"enc-sym-same-state": seed}),
        FOp::EncPkSameState { seed } => json!({"enc-pk-same-state": seed}),
        FOp::ExpandAcross => json!("expand-across-contexts"),
        FOp::MixedSeedSaving { seed } => json!({"mixed-seed-saving": seed}),
    }
}
fn fop_from(v: &Value) -> Option<FOp> {
    if v.as_str() == Some("new-keygen") {
        return Some(FOp::NewKeygen);
    }
    if v.as_str() == Some("expand-across-contexts") {
        return Some(FOp::ExpandAcross);
    }
    let o = v.as_object()?;
    if let Some(s) = o.get("pk") {
        return Some(FOp::Pk { seed: s.as_bool()? });
    }
    if let Some(s) = o.get("relin") {
        return Some(FOp::Relin { seed: s.as_bool()? });
    }
    if let Some(s) = o.get("galois") {
        return Some(FOp::Galois { seed: s.as_bool()?, elt: o.get("elt")?.as_u64()? as usize });
    }
    if let Some(x) = o.get("galois-many") {
        return Some(FOp::GaloisMany { seed: x.as_bool()?, count: o.get("count")?.as_u64()? as usize });
    }
    if let Some(x) = o.get("kswitch") {
        return Some(FOp::KSwitch { seed: x.as_bool()? });
    }
    if let Some(x) = o.get("from-sk") {
        return Some(FOp::FromSk { seed: x.as_bool()? });
    }
    if let Some(s) = o.get("enc-pk-zero") {
        return Some(FOp::EncPk { zero: s.as_bool()? });
    }
    if let Some(s) = o.get("enc-sym-seeded") {
        return Some(FOp::EncSym { seeded: s.as_bool()?, zero: o.get("zero")?.as_bool()? });
    }
    if let Some(s) = o.get("enc-sym-same-state") {
        return Some(FOp::EncSymSameState { seed: s.as_u64()? });
    }
    if let Some(s) = o.get("mixed-seed-saving") {
        return Some(FOp::MixedSeedSaving { seed: s.as_u64()? });
    }
    if let Some(s) = o.get("enc-pk-same-state") {
        return Some(FOp::EncPkSameState { seed: s.as_u64()? });
    }
    None
}

#[derive(Clone, Debug)]
pub struct FScn {
    pub spec: ParamSpec,
    pub ent: u64,
    pub threads: Vec<Vec<FOp>>,
    pub msg_seed: u64,
    /// None: OS entropy is replaced by the seeded provider; Some(false) unused
    pub real_entropy: bool,
}

impl FScn {
    fn to_json(&self) -> Value {
        json!({
            "part": "freshness",
            "spec": self.spec.to_json(),
            "entropy_seed": self.ent,
            "message_seed": self.msg_seed,
            "real_os_entropy": self.real_entropy,
            "threads": self.threads.iter().map(|t| t.iter().map(fop_json).collect::<Vec<_>>()).collect::<Vec<_>>(),
        })
    }
    fn from_json(v: &Value) -> Option<FScn> {
        Some(FScn {
            spec: ParamSpec::from_json(&v["spec"])?,
            ent: v["entropy_seed"].as_u64()?,
            msg_seed: v["message_seed"].as_u64()?,
            real_entropy: v["real_os_entropy"].as_bool().unwrap_or(false),
            threads: v["threads"].as_array()?.iter().map(|t| t.as_array().and_then(|o| o.iter().map(fop_from).collect::<Option<Vec<_>>>())).collect::<Option<Vec<_>>>()?,
        })
    }
}

/// What an operation exposes to the freshness oracle.
#[derive(Clone, Debug)]
pub struct Produced {
    pub what: String,
    /// mask polynomials (c1 after expansion) as hashes, one per ciphertext the object contains
    pub masks: Vec<u64>,
    /// stored seed words (for seeded objects)
    pub seeds: Vec<[u64; 8]>,
    /// noise polynomials of key components (the phase outside the component that carries the key
    /// material is exactly the error), as hashes
    pub noises: Vec<u64>,
    pub secret: Option<u64>,
    /// "same state" operations: (mask hash A, mask hash B, max centred difference of c1 after removing t for BGV)
    pub pair: Option<(u64, u64, Option<u64>)>,
    /// noise check of a real encryption: (max |e|, rns consistent)
    pub noise: Option<(u64, bool, u64)>,
    /// symmetric same-state pair: did both encryptions come out with identical c0?
    pub same_c0: Option<bool>,
    /// seeded objects expanded in two independently built contexts: first difference, if any
    pub expand_diff: Option<String>,
}

fn seed_words(c: &Ciphertext) -> Option<[u64; 8]> {
    if c.contains_seed() {
        let mut w = [0u64; 8];
        w.copy_from_slice(&c.poly(1)[1..9]);
        Some(w)
    } else {
        None
    }
}

fn mask_hash(c: &Ciphertext, ctx: &HeContext) -> u64 {
    let e = crate::objs::expand_ct(c, ctx);
    util::h64_u64s(e.poly(1))
}

fn modinv(a: u64, m: u64) -> u64 {
    // m prime
    let mut r = 1u128;
    let mut b = a as u128 % m as u128;
    let mut e = m - 2;
    while e > 0 {
        if e & 1 == 1 {
            r = r * b % m as u128;
        }
        b = b * b % m as u128;
        e >>= 1;
    }
    r as u64
}

/// Phase c0 + c1*s of a size-2 ciphertext in coefficient form per RNS component.
fn phase(w: &World, c: &Ciphertext, sk: &SecretKey) -> Vec<Vec<u64>> {
    let cd = w.ctx.get_context_data(c.parms_id()).unwrap();
    let n = w.spec.n;
    let moduli: Vec<u64> = cd.parms().coeff_modulus().iter().map(|m| m.value()).collect();
    let mut out = Vec::new();
    for (j, &q) in moduli.iter().enumerate() {
        let t = &cd.small_ntt_tables()[j];
        let mut c0 = c.poly_component(0, j).to_vec();
        let mut c1 = c.poly_component(1, j).to_vec();
        if !c.is_ntt_form() {
            t.ntt_negacyclic_harvey(&mut c0);
            t.ntt_negacyclic_harvey(&mut c1);
        }
        let s = &sk.data()[j * n..(j + 1) * n];
        let mut p: Vec<u64> = (0..n).map(|i| ((c1[i] as u128 * s[i] as u128 + c0[i] as u128) % q as u128) as u64).collect();
        t.inverse_ntt_negacyclic_harvey(&mut p);
        out.push(p);
    }
    out
}

/// (max |centred value|, consistent across RNS components, after dividing by t when `div_t`)
fn centred_stats(w: &World, level: &ParmsID, comps: &[Vec<u64>], div_t: bool) -> (u64, bool) {
    let moduli = w.level_moduli(level);
    let n = w.spec.n;
    let mut maxabs = 0u64;
    let mut consistent = true;
    for i in 0..n {
        let mut first: Option<i128> = None;
        for (j, &q) in moduli.iter().enumerate() {
            let mut v = comps[j][i];
            if div_t {
                v = ((v as u128 * modinv(w.spec.t % q, q) as u128) % q as u128) as u64;
            }
            let c: i128 = if v > q / 2 { v as i128 - q as i128 } else { v as i128 };
            maxabs = maxabs.max(c.unsigned_abs() as u64);
            match first {
                None => first = Some(c),
                Some(f) => {
                    // only comparable when the value fits every modulus
                    if f != c && (f.unsigned_abs() as u64) < q / 2 && (c.unsigned_abs() as u64) < moduli[0] / 2 {
                        consistent = false;
                    }
                }
            }
        }
    }
    (maxabs, consistent)
}

struct FShared {
    world: World,
    /// distinguishes the contexts of one history (explicit generator seeds must not coincide across them)
    ctx_tag: u64,
}

fn exec_fop(op: &FOp, sh: &FShared, rng: &mut Prng) -> Produced {
    let w = &sh.world;
    let ctx = &w.ctx;
    let big_ternary_space = w.spec.n >= 32;
    let mut p = Produced { what: format!("{:?}", op), masks: vec![], seeds: vec![], noises: vec![], secret: None, pair: None, noise: None, same_c0: None, expand_diff: None };
    let ks = |k: &KSwitchKeys, p: &mut Produced| {
        for pk in k.data().iter().flatten() {
            p.masks.push(mask_hash(pk.as_ciphertext(), ctx));
            if let Some(s) = seed_words(pk.as_ciphertext()) {
                p.seeds.push(s);
            }
        }
        // the error of decomposition component i, read off in the RNS components other than i
        // (c0 + c1*s there is -e exactly; component i also carries the key material)
        if w.spec.n >= 16 {
            for entry in k.data().iter() {
                for (i, pk) in entry.iter().enumerate() {
                    let e = crate::objs::expand_ct(pk.as_ciphertext(), ctx);
                    let ph = phase(w, &e, &w.sk);
                    // read it in the last component (the special prime: never a decomposition index),
                    // as centred values, so that equal errors compare equal whatever the component
                    let j = ph.len() - 1;
                    if j != i {
                        let q = w.level_moduli(e.parms_id())[j];
                        let centred: Vec<u64> = ph[j].iter().map(|&v| if v > q / 2 { (v as i64 - q as i64) as u64 } else { v }).collect();
                        p.noises.push(util::h64_u64s(&centred));
                    }
                }
            }
        }
    };
    match op {
        FOp::NewKeygen => {
            let kg = KeyGenerator::new(ctx.clone());
            // a ternary key of N coefficients has only 3^N values: equal keys are *expected* now and
            // then for N < 32 (3^8 = 6561), so distinctness is asserted only from N = 32 on
            if big_ternary_space {
                p.secret = Some(util::h64_u64s(kg.secret_key().data()));
            }
        }
        FOp::Pk { seed } => {
            let k = w.keygen.create_public_key(*seed);
            p.masks.push(mask_hash(k.as_ciphertext(), ctx));
            if let Some(s) = seed_words(k.as_ciphertext()) {
                p.seeds.push(s);
            }
        }
        FOp::Relin { seed } => {
            if w.uses_keyswitching() {
                ks(w.keygen.create_relin_keys(*seed).as_kswitch_keys(), &mut p);
            }
        }
        FOp::Galois { seed, elt } => {
            if w.uses_keyswitching() {
                ks(w.keygen.create_galois_keys_from_elts(&[*elt], *seed).as_kswitch_keys(), &mut p);
            }
        }
        FOp::GaloisMany { seed, count } => {
            if w.uses_keyswitching() {
                let k = if *count == 0 {
                    w.keygen.create_galois_keys(*seed)
                } else {
                    let elts: Vec<usize> = (1..w.spec.n).map(|i| 2 * i + 1).take(*count).collect();
                    w.keygen.create_galois_keys_from_elts(&elts, *seed)
                };
                ks(k.as_kswitch_keys(), &mut p);
            }
        }
        FOp::KSwitch { seed } => {
            if w.uses_keyswitching() {
                let other = KeyGenerator::new(ctx.clone());
                ks(&w.keygen.create_keyswitching_key(other.secret_key(), *seed), &mut p);
            }
        }
        FOp::FromSk { seed } => {
            let kg = KeyGenerator::from_sk(ctx.clone(), w.sk.clone());
            let k = kg.create_public_key(*seed);
            p.masks.push(mask_hash(k.as_ciphertext(), ctx));
            if let Some(s) = seed_words(k.as_ciphertext()) {
                p.seeds.push(s);
            }
            if w.uses_keyswitching() {
                ks(kg.create_relin_keys(*seed).as_kswitch_keys(), &mut p);
            }
        }
        FOp::EncPk { zero } => {
            let c = if *zero { w.encryptor.encrypt_zero_new() } else { w.encryptor.encrypt_new(&w.random_plain(rng)) };
            // c1 = pk1*u + e1 (rounded after the modulus switch): its variety is that of the ternary u
            if big_ternary_space {
                p.masks.push(mask_hash(&c, ctx));
            }
            if *zero {
                let ph = phase(w, &c, &w.sk);
                let (m, cons) = centred_stats(w, c.parms_id(), &ph, w.spec.scheme == BGV);
                p.noise = Some((m, cons, (2 * w.spec.n as u64 + 2) * 21 + 4));
            }
        }
        FOp::EncSym { seeded, zero } => {
            let c = match (*seeded, *zero) {
                (true, true) => w.encryptor.encrypt_zero_symmetric_new(),
                (true, false) => w.encryptor.encrypt_symmetric_new(&w.random_plain(rng)),
                (false, true) => {
                    let mut c = Ciphertext::new();
                    w.encryptor.encrypt_zero_symmetric(&mut c);
                    c
                }
                (false, false) => {
                    let mut c = Ciphertext::new();
                    w.encryptor.encrypt_symmetric(&w.random_plain(rng), &mut c);
                    c
                }
            };
            p.masks.push(mask_hash(&c, ctx));
            if let Some(s) = seed_words(&c) {
                p.seeds.push(s);
            }
            if *zero {
                let e = crate::objs::expand_ct(&c, ctx);
                let ph = phase(w, &e, &w.sk);
                let (m, cons) = centred_stats(w, e.parms_id(), &ph, w.spec.scheme == BGV);
                p.noise = Some((m, cons, 21));
            }
        }
        FOp::MixedSeedSaving { seed } => {
            let s = PRNGSeed(Prng::new(*seed ^ sh.ctx_tag.wrapping_mul(0x9E37_79B9_7F4A_7C15)).bytes64());
            // public keys are always in NTT form: saving the seed or not must not change the mask
            let ka = w.keygen.create_public_key_with_u_prng(true, &mut BlakeRNG::from_seed(s));
            let kb = w.keygen.create_public_key_with_u_prng(false, &mut BlakeRNG::from_seed(s));
            let (ma, mb) = (mask_hash(ka.as_ciphertext(), ctx), mask_hash(kb.as_ciphertext(), ctx));
            p.pair = Some((ma, mb, None));
            p.masks.push(ma);
            if w.spec.scheme != BFV && ma == mb {
                // symmetric encryption in the NTT-form schemes likewise
                let pl = w.random_plain(rng);
                let a = w.encryptor.encrypt_symmetric_new_with_u_prng(&pl, &mut BlakeRNG::from_seed(s));
                let mut b = Ciphertext::new();
                w.encryptor.encrypt_symmetric_with_u_prng(&pl, &mut BlakeRNG::from_seed(s), &mut b);
                p.pair = Some((mask_hash(&a, ctx), mask_hash(&b, ctx), None));
            }
        }
        FOp::ExpandAcross => {
            let other = gen::build_context(&w.spec).expect("second context");
            let c = w.encryptor.encrypt_symmetric_new(&w.random_plain(rng));
            let k = w.keygen.create_public_key(true);
            p.masks.push(mask_hash(&c, ctx));
            p.masks.push(mask_hash(k.as_ciphertext(), ctx));
            for (name, obj) in [("ciphertext", &c), ("public key", k.as_ciphertext())] {
                if obj.contains_seed() {
                    let a = obj.clone().expand_seed(ctx);
                    let b = obj.clone().expand_seed(&other);
                    if a.data() != b.data() {
                        p.expand_diff = Some(format!("seeded {} expands differently in a second, independently built context", name));
                    }
                    if a.contains_seed() {
                        p.expand_diff = Some(format!("seeded {} still carries the seed flag after expansion", name));
                    }
                }
            }
        }
        FOp::EncSymSameState { seed } => {
            let s = PRNGSeed(Prng::new(*seed ^ sh.ctx_tag.wrapping_mul(0x9E37_79B9_7F4A_7C15)).bytes64());
            let pl = w.random_plain(rng);
            let a = w.encryptor.encrypt_symmetric_new_with_u_prng(&pl, &mut BlakeRNG::from_seed(s));
            let b = w.encryptor.encrypt_symmetric_new_with_u_prng(&pl, &mut BlakeRNG::from_seed(s));
            p.pair = Some((mask_hash(&a, ctx), mask_hash(&b, ctx), None));
            // same mask, but the noise must still be fresh: identical c0 means no randomness was drawn
            // (two independent error vectors of fewer than 16 coefficients do coincide now and then)
            if w.spec.n >= 16 {
                p.same_c0 = Some(a.poly(0) == b.poly(0));
            }
            // the pair shares its mask by construction; it still must differ from everything else
            p.masks.push(mask_hash(&a, ctx));
        }
        FOp::EncPkSameState { seed } => {
            let s = PRNGSeed(Prng::new(*seed ^ sh.ctx_tag.wrapping_mul(0x9E37_79B9_7F4A_7C15)).bytes64());
            let a = w.encryptor.encrypt_zero_new_with_u_prng(&mut BlakeRNG::from_seed(s));
            let b = w.encryptor.encrypt_zero_new_with_u_prng(&mut BlakeRNG::from_seed(s));
            // same u => c1 - c1' is a difference of two small errors (after removing t for BGV)
            let n = w.spec.n;
            let cd = ctx.get_context_data(a.parms_id()).unwrap();
            let moduli = w.level_moduli(a.parms_id());
            let mut diff = Vec::new();
            for (j, &q) in moduli.iter().enumerate() {
                let mut d: Vec<u64> = (0..n).map(|i| (a.poly_component(1, j)[i] + q - b.poly_component(1, j)[i]) % q).collect();
                if a.is_ntt_form() {
                    cd.small_ntt_tables()[j].inverse_ntt_negacyclic_harvey(&mut d);
                }
                diff.push(d);
            }
            let (m, _) = centred_stats(w, a.parms_id(), &diff, w.spec.scheme == BGV);
            p.pair = Some((0, 0, Some(m)));
            if big_ternary_space {
                p.masks.push(mask_hash(&a, ctx));
                p.masks.push(mask_hash(&b, ctx));
            }
        }
    }
    p
}

fn judge_fresh(all: &[(usize, usize, Produced)], scheme: &str) -> Vec<(String, String, String)> {
    let mut bad = Vec::new();
    let mut masks: BTreeMap<u64, (usize, usize, String)> = BTreeMap::new();
    let mut seeds: BTreeMap<[u64; 8], (usize, usize, String)> = BTreeMap::new();
    let mut secrets: BTreeMap<u64, (usize, usize)> = BTreeMap::new();
    let mut noises: BTreeMap<u64, (usize, usize, usize, String)> = BTreeMap::new();
    for (t, i, p) in all {
        for m in &p.masks {
            if let Some((t0, i0, w0)) = masks.insert(*m, (*t, *i, p.what.clone())) {
                if !(t0 == *t && i0 == *i) {
                    bad.push((
                        format!("freshness/{}/mask-reused", scheme),
                        "mask-reused".into(),
                        format!("operation {} of thread {} ({}) and operation {} of thread {} ({}) share their mask polynomial", i0, t0, w0, i, t, p.what),
                    ));
                }
            }
        }
        for s in &p.seeds {
            if let Some((t0, i0, w0)) = seeds.insert(*s, (*t, *i, p.what.clone())) {
                if !(t0 == *t && i0 == *i) {
                    bad.push((
                        format!("freshness/{}/seed-reused", scheme),
                        "seed-reused".into(),
                        format!("operation {} of thread {} ({}) and operation {} of thread {} ({}) store the same seed", i0, t0, w0, i, t, p.what),
                    ));
                }
            }
        }
        for (k, nz) in p.noises.iter().enumerate() {
            if let Some((t0, i0, k0, w0)) = noises.insert(*nz, (*t, *i, k, p.what.clone())) {
                bad.push((
                    format!("freshness/{}/noise-reused", scheme),
                    "noise-reused".into(),
                    format!("key component {} of operation {} of thread {} ({}) and key component {} of operation {} of thread {} ({}) carry the same error polynomial", k0, i0, t0, w0, k, i, t, p.what),
                ));
            }
        }
        if let Some(s) = p.secret {
            if let Some((t0, i0)) = secrets.insert(s, (*t, *i)) {
                bad.push((format!("freshness/{}/secret-key-reused", scheme), "secret-key-reused".into(), format!("key generators {}:{} and {}:{} produced the same secret key", t0, i0, t, i)));
            }
        }
        if let Some((a, b, d)) = p.pair {
            match d {
                None => {
                    if a != b {
                        bad.push((format!("freshness/{}/same-state-different-mask", scheme), "same-state-different-mask".into(), format!("{}: two symmetric encryptions handed generators in the same explicit state derived different masks", p.what)));
                    }
                }
                Some(m) => {
                    if m > 2 * 21 + 8 {
                        bad.push((
                            format!("freshness/{}/same-state-different-u", scheme),
                            "same-state-different-u".into(),
                            format!("{}: two public-key encryptions handed generators in the same explicit state do not share u (c1 difference has a centred coefficient of magnitude {})", p.what, m),
                        ));
                    }
                }
            }
        }
        if let Some(d) = &p.expand_diff {
            bad.push((format!("expansion/{}/differs-across-contexts", scheme), "differs-across-contexts".into(), d.clone()));
        }
        if p.same_c0 == Some(true) {
            bad.push((
                format!("freshness/{}/same-state-no-fresh-noise", scheme),
                "same-state-no-fresh-noise".into(),
                format!("{}: two symmetric encryptions handed generators in the same explicit state are bit-identical (the noise was not drawn freshly)", p.what),
            ));
        }
        if let Some((m, cons, bound)) = p.noise {
            if m > bound || !cons {
                bad.push((
                    format!("samples/{}/encryption-noise-malformed", scheme),
                    "encryption-noise-malformed".into(),
                    format!("{}: the noise of a fresh zero encryption has max |e| = {} (bound {}), RNS-consistent = {}", p.what, m, bound, cons),
                ));
            }
        }
    }
    bad
}

fn run_freshness(scn: &FScn) -> Result<(Vec<(String, String, String)>, u64, u64), String> {
    let scheme = gen::scheme_name(scn.spec.scheme);
    let build = || gen::build_world(&scn.spec);
    let world = if scn.real_entropy { build()? } else { gen::with_entropy(scn.ent, |_| build())? };
    let sh = Arc::new(FShared { world, ctx_tag: 0 });
    let mut all: Vec<(usize, usize, Produced)> = Vec::new();
    let draws;
    if scn.real_entropy {
        // the real entropy path (no provider installed): the same operation list on TWO contexts of
        // the same process; nothing may be shared within a context nor across the two
        let sh_b = Arc::new(FShared { world: gen::build_world(&scn.spec)?, ctx_tag: 1 });
        for (t, shared) in [&sh, &sh_b].into_iter().enumerate() {
            let mut rng = Prng::new(scn.msg_seed);
            for (i, op) in scn.threads[0].iter().enumerate() {
                let p = catch_res(|| exec_fop(op, shared, &mut rng))?;
                all.push((t, i, p));
            }
        }
        // supplementary (not replayable): real threads hammer one encryptor on the real entropy path;
        // every stored seed / mask must still be unique
        {
            let enc = Arc::new(Encryptor::new(sh.world.ctx.clone()).set_secret_key(sh.world.sk.clone()));
            let barrier = Arc::new(std::sync::Barrier::new(4));
            let ctx2 = sh.world.ctx.clone();
            let handles: Vec<_> = (0..4)
                .map(|_| {
                    let enc = enc.clone();
                    let barrier = barrier.clone();
                    let ctx2 = ctx2.clone();
                    std::thread::spawn(move || {
                        barrier.wait();
                        (0..40)
                            .map(|_| {
                                let c = enc.encrypt_zero_symmetric_new();
                                (seed_words(&c), mask_hash(&c, &ctx2))
                            })
                            .collect::<Vec<_>>()
                    })
                })
                .collect();
            for (t, h) in handles.into_iter().enumerate() {
                let v = h.join().map_err(|_| "real thread panicked".to_string())?;
                for (i, (sw, mh)) in v.into_iter().enumerate() {
                    all.push((10 + t, i, Produced { what: "concurrent seeded symmetric encryption (real threads, OS entropy)".into(), masks: vec![mh], seeds: sw.into_iter().collect(), noises: vec![], secret: None, pair: None, noise: None, same_c0: None, expand_diff: None }));
                }
            }
        }
        // supplementary (not replayable): thread-per-request — short-lived threads on the same
        // context, one after another (never alive together); each thread's first outputs must still
        // differ from every other thread's
        {
            let enc = Arc::new(Encryptor::new(sh.world.ctx.clone()).set_secret_key(sh.world.sk.clone()).set_public_key(sh.world.pk.clone()));
            let big = scn.spec.n >= 32;
            for k in 0..6 {
                let enc = enc.clone();
                let ctx2 = sh.world.ctx.clone();
                let h = std::thread::spawn(move || {
                    let secret = if big { Some(util::h64_u64s(KeyGenerator::new(ctx2.clone()).secret_key().data())) } else { None };
                    let c = enc.encrypt_zero_symmetric_new();
                    let a = enc.encrypt_zero_new();
                    (secret, seed_words(&c), mask_hash(&c, &ctx2), if big { Some(mask_hash(&a, &ctx2)) } else { None })
                });
                let (secret, sw, mh, amh) = h.join().map_err(|_| "short-lived thread panicked".to_string())?;
                let mut masks = vec![mh];
                masks.extend(amh);
                all.push((20 + k, 0, Produced { what: "first operations of a short-lived thread (thread per request, OS entropy)".into(), masks, seeds: sw.into_iter().collect(), noises: vec![], secret, pair: None, noise: None, same_c0: None, expand_diff: None }));
            }
        }
        // the two long-lived key generators themselves
        if scn.spec.n >= 32 {
            let (a, b) = (util::h64_u64s(sh.world.sk.data()), util::h64_u64s(sh_b.world.sk.data()));
            all.push((0, 1000, Produced { what: "context A's key generator".into(), masks: vec![], seeds: vec![], noises: vec![], secret: Some(a), pair: None, noise: None, same_c0: None, expand_diff: None }));
            all.push((1, 1000, Produced { what: "context B's key generator".into(), masks: vec![], seeds: vec![], noises: vec![], secret: Some(b), pair: None, noise: None, same_c0: None, expand_diff: None }));
        }
        draws = 0;
    } else if scn.threads.len() == 1 {
        let mut rng = Prng::new(scn.msg_seed);
        let ops = scn.threads[0].clone();
        let sh2 = sh.clone();
        let mut run = move |h: Option<&Arc<gen::EntropyHook>>| -> Result<(Vec<Produced>, u64), String> {
            let mut v = Vec::new();
            for op in &ops {
                v.push(catch_res(|| exec_fop(op, &sh2, &mut rng))?);
            }
            Ok((v, h.map(|h| h.draws()).unwrap_or(0)))
        };
        let (v, d) = if scn.real_entropy { run(None)? } else { gen::with_entropy(prng::mix(scn.ent, 5, 5), |h| run(Some(h)))? };
        draws = d;
        for (i, p) in v.into_iter().enumerate() {
            all.push((0, i, p));
        }
    } else {
        let mut bodies: Vec<Box<dyn FnOnce() -> Vec<Produced> + Send>> = Vec::new();
        for (t, ops) in scn.threads.iter().enumerate() {
            let ops = ops.clone();
            let sh2 = sh.clone();
            let ms = prng::mix(scn.msg_seed, t as u64, 3);
            bodies.push(Box::new(move || {
                let mut rng = Prng::new(ms);
                ops.iter().map(|op| exec_fop(op, &sh2, &mut rng)).collect()
            }));
        }
        let cfg = SimConfig {
            policy: Policy::WriterPref,
            strategy: Strategy::Random,
            sched_seed: prng::mix(scn.ent, 9, 9),
            step_cap: 100000,
            ent_seeds: (0..scn.threads.len()).map(|t| prng::mix(scn.ent, 0x7EAD, t as u64)).collect(),
            stall_secs: 30,
        };
        let res = sched::simulate(cfg, bodies, None);
        if let Some((c, d)) = res.violation {
            return Err(format!("scheduler reported {}: {}", c, d));
        }
        draws = res.entropy_draws.iter().sum();
        for (t, o) in res.outcomes.into_iter().enumerate() {
            match o {
                Caught::Ok(v) => {
                    for (i, p) in v.into_iter().enumerate() {
                        all.push((t, i, p));
                    }
                }
                Caught::Panic(m) => return Err(format!("thread {} panicked: {}", t, m)),
                Caught::Aborted => return Err("aborted".into()),
            }
        }
    }
    let randomized = all.iter().filter(|(_, _, p)| !p.masks.is_empty() || p.secret.is_some()).count() as u64;
    Ok((judge_fresh(&all, scheme), randomized, draws))
}

fn gen_fscn(rng: &mut Prng, run_seed: u64, real_entropy: bool) -> Option<FScn> {
    let mut opts = SpecOpts { schemes: vec![BFV, BGV, CKKS], ns: vec![8, 16, 32, 32, 64], min_primes: 1, max_primes: 3, qbits: vec![30, 36, 40, 45, 50, 60], tbits: vec![8, 13, 17], batching: false };
    // one history in eight is about large key sets: one call producing dozens of key components
    // (many Galois elements x many decomposition primes) followed by other key generations
    let big_keys = rng.chance(1, 8);
    if big_keys {
        opts.ns = vec![64, 64, 128];
        opts.min_primes = 3;
        opts.max_primes = 6;
        opts.qbits = vec![30, 36, 40];
    }
    let spec = gen::draw_spec(rng, &opts)?;
    let nthreads = if real_entropy { 1 } else { *rng.pick(&[1usize, 1, 2, 3]) };
    let n = spec.n;
    let threads = (0..nthreads)
        .map(|t| {
            let nops = rng.range(2, 8);
            (0..nops)
                .map(|k| match if big_keys && t == 0 && k == 0 { 13 } else { rng.below(15) } {
                    13 => FOp::GaloisMany { seed: rng.coin(), count: if rng.chance(1, 4) { 0 } else if big_keys { rng.range(n / 4, n - 1) } else { rng.range(2, n - 1) } },
                    14 => if rng.coin() { FOp::KSwitch { seed: rng.coin() } } else { FOp::FromSk { seed: rng.coin() } },
                    12 => FOp::MixedSeedSaving { seed: rng.next_u64() >> 1 },
                    11 => FOp::ExpandAcross,
                    0 => FOp::NewKeygen,
                    1 => FOp::Pk { seed: rng.coin() },
                    2 => FOp::Relin { seed: rng.coin() },
                    3 => FOp::Galois { seed: rng.coin(), elt: 2 * rng.usize_below(n) + 1 },
                    4 | 5 => FOp::EncPk { zero: rng.coin() },
                    6 | 7 | 8 => FOp::EncSym { seeded: rng.coin(), zero: rng.coin() },
                    9 => FOp::EncSymSameState { seed: rng.next_u64() >> 1 },
                    _ => FOp::EncPkSameState { seed: rng.next_u64() >> 1 },
                })
                .collect()
        })
        .collect();
    Some(FScn { spec, ent: prng::mix(run_seed, 0xF4E5, 0), threads, msg_seed: prng::mix(run_seed, 0xF4E5, 1), real_entropy })
}

// =======================================================================================
// Sub-check 3: samplers under adversarial / honest streams

/// A random stream that is honest except for a window where a byte pattern repeats.
pub struct ScriptRng {
    honest: Prng,
    pos: u64,
    win_start: u64,
    win_len: u64,
    pattern: Vec<u8>,
}

impl ScriptRng {
    fn new(seed: u64, win_start: u64, win_len: u64, pattern: Vec<u8>) -> Self {
        ScriptRng { honest: Prng::new(seed), pos: 0, win_start, win_len, pattern }
    }
}

impl RngCore for ScriptRng {
    fn next_u32(&mut self) -> u32 {
        let mut b = [0u8; 4];
        self.fill_bytes(&mut b);
        u32::from_le_bytes(b)
    }
    fn next_u64(&mut self) -> u64 {
        let mut b = [0u8; 8];
        self.fill_bytes(&mut b);
        u64::from_le_bytes(b)
    }
    fn fill_bytes(&mut self, dest: &mut [u8]) {
        for d in dest.iter_mut() {
            let h = (self.honest.next_u64() & 0xff) as u8;
            let in_win = !self.pattern.is_empty() && self.pos >= self.win_start && self.pos < self.win_start + self.win_len;
            *d = if in_win { self.pattern[((self.pos - self.win_start) % self.pattern.len() as u64) as usize] } else { h };
            self.pos += 1;
        }
    }
    fn try_fill_bytes(&mut self, dest: &mut [u8]) -> Result<(), rand::Error> {
        self.fill_bytes(dest);
        Ok(())
    }
}

const PATTERNS: &[(&str, &[u8])] = &[
    ("honest", &[]),
    ("zeros", &[0x00]),
    ("ones", &[0xFF]),
    ("alternating", &[0xAA, 0x55]),
    ("cbd-max", &[0xFF, 0xFF, 0xFF, 0x00, 0x00, 0x00]),
    ("cbd-min", &[0x00, 0x00, 0x00, 0xFF, 0xFF, 0xFF]),
    ("counter", &[0, 1, 2, 3, 4, 5, 6, 7, 8, 9, 10, 11, 12, 13, 14, 15, 16, 17, 18, 19, 20, 21, 22, 23, 24, 25, 26, 27, 28, 29, 30, 31]),
    ("high-bit", &[0x80]),
    ("low-bit", &[0x01]),
    ("ff-then-zero", &[0xFF, 0xFF, 0xFF, 0xFF, 0xFF, 0xFF, 0xFF, 0xFF, 0, 0, 0, 0, 0, 0, 0, 0]),
];

#[derive(Clone, Debug)]
pub struct SScn {
    pub moduli: Vec<u64>,
    pub n: usize,
    pub sampler: String,
    pub pattern: String,
    pub win_start: u64,
    pub win_len: u64,
    pub seed: u64,
}

impl SScn {
    fn to_json(&self) -> Value {
        json!({"part": "sampler", "moduli": self.moduli, "n": self.n, "sampler": self.sampler, "pattern": self.pattern,
               "window_start": self.win_start, "window_len": self.win_len, "stream_seed": self.seed})
    }
    fn from_json(v: &Value) -> Option<SScn> {
        Some(SScn {
            moduli: v["moduli"].as_array()?.iter().map(|x| x.as_u64()).collect::<Option<Vec<_>>>()?,
            n: v["n"].as_u64()? as usize,
            sampler: v["sampler"].as_str()?.to_string(),
            pattern: v["pattern"].as_str()?.to_string(),
            win_start: v["window_start"].as_u64()?,
            win_len: v["window_len"].as_u64()?,
            seed: v["stream_seed"].as_u64()?,
        })
    }
}

fn sampler_parms(moduli: &[u64], n: usize) -> EncryptionParameters {
    let q: Vec<Modulus> = moduli.iter().map(|&m| Modulus::new(m)).collect();
    EncryptionParameters::new(SchemeType::CKKS).set_poly_modulus_degree(n).set_coeff_modulus(&q)
}

fn run_sampler(s: &SScn) -> Result<Vec<(String, String, String)>, String> {
    let pattern = PATTERNS.iter().find(|(n, _)| *n == s.pattern).map(|(_, p)| p.to_vec()).ok_or("unknown pattern")?;
    let parms = sampler_parms(&s.moduli, s.n);
    let k = s.moduli.len();
    let mut dest = vec![0u64; s.n * k];
    let mut rng = ScriptRng::new(s.seed, s.win_start, s.win_len, pattern);
    let sampler = s.sampler.clone();
    catch_res(|| match sampler.as_str() {
        "ternary" => sample::ternary(&mut rng, &parms, &mut dest),
        "centered_binomial" => sample::centered_binomial(&mut rng, &parms, &mut dest),
        _ => sample::uniform(&mut rng, &parms, &mut dest),
    })
    .map_err(|p| format!("sampler panicked: {}", p))?;
    let mut bad = Vec::new();
    let key = |c: &str| format!("samples/{}/{}", s.sampler, c);
    let mut maxabs = 0i64;
    let mut saw_plus = false;
    let mut saw_minus = false;
    for i in 0..s.n {
        if s.sampler == "uniform" {
            for (j, &q) in s.moduli.iter().enumerate() {
                if dest[j * s.n + i] >= q {
                    bad.push((key("not-below-modulus"), "not-below-modulus".into(), format!("uniform sample {} for modulus {} (component {}, coefficient {}) under stream '{}'", dest[j * s.n + i], q, j, i, s.pattern)));
                    return Ok(bad);
                }
            }
            continue;
        }
        // the signed value is read from the largest modulus (the only unambiguous one when tiny
        // moduli are present); every component must hold that value reduced modulo its modulus
        let (jmax, &qmax) = s.moduli.iter().enumerate().max_by_key(|(_, &q)| q).unwrap();
        for (j, &q) in s.moduli.iter().enumerate() {
            if dest[j * s.n + i] >= q {
                bad.push((key("not-below-modulus"), "not-below-modulus".into(), format!("sample {} not reduced modulo {}", dest[j * s.n + i], q)));
                return Ok(bad);
            }
        }
        if qmax <= 42 && s.sampler == "centered_binomial" {
            // no modulus can tell +k from -(q-k): only reducedness (checked above) is meaningful
            continue;
        }
        let vmax = dest[jmax * s.n + i];
        let f: i64 = if vmax > qmax / 2 { vmax as i64 - qmax as i64 } else { vmax as i64 };
        for (j, &q) in s.moduli.iter().enumerate() {
            let v = dest[j * s.n + i];
            if (f.rem_euclid(q as i64)) as u64 != v {
                bad.push((
                    key("rns-inconsistent"),
                    "rns-inconsistent".into(),
                    format!("coefficient {}: the component for modulus {} encodes {} but the component for modulus {} holds {} (stream '{}')", i, qmax, f, q, v, s.pattern),
                ));
                return Ok(bad);
            }
        }
        if qmax > 64 {
            maxabs = maxabs.max(f.abs());
            if f == 21 {
                saw_plus = true;
            }
            if f == -21 {
                saw_minus = true;
            }
            if s.sampler == "ternary" && !(-1..=1).contains(&f) {
                bad.push((key("out-of-range"), "out-of-range".into(), format!("ternary sample {} at coefficient {} (stream '{}')", f, i, s.pattern)));
                return Ok(bad);
            }
            if s.sampler == "centered_binomial" && f.abs() > 21 {
                bad.push((key("error-bound-exceeded"), "error-bound-exceeded".into(), format!("error sample {} at coefficient {} exceeds the bound 21 (stream '{}')", f, i, s.pattern)));
                return Ok(bad);
            }
        }
    }
    // tightness: the maximal pattern must reach exactly +-21 when the window covers whole aligned groups
    if s.sampler == "centered_binomial" && s.moduli.iter().any(|&q| q > 64) && s.win_start % 6 == 0 && s.win_len >= 12 && s.win_start + 12 <= 6 * s.n as u64 {
        if s.pattern == "cbd-max" && !saw_plus {
            bad.push((key("bound-not-tight"), "bound-not-tight".into(), format!("the maximal error pattern did not produce +21 (max |e| seen {})", maxabs)));
        }
        if s.pattern == "cbd-min" && !saw_minus {
            bad.push((key("bound-not-tight"), "bound-not-tight".into(), format!("the minimal error pattern did not produce -21 (max |e| seen {})", maxabs)));
        }
    }
    Ok(bad)
}

/// Upper quantile of chi-square with `dof` degrees of freedom at z standard deviations (Wilson-Hilferty).
fn chi2_threshold(dof: f64, z: f64) -> f64 {
    let a = 2.0 / (9.0 * dof);
    dof * (1.0 - a + z * a.sqrt()).powi(3)
}

fn chi2(obs: &[f64], exp: &[f64]) -> (f64, f64) {
    // pool cells with expectation < 8
    let mut o2 = Vec::new();
    let mut e2 = Vec::new();
    let (mut po, mut pe) = (0.0, 0.0);
    for (o, e) in obs.iter().zip(exp.iter()) {
        if *e < 8.0 {
            po += o;
            pe += e;
        } else {
            o2.push(*o);
            e2.push(*e);
        }
    }
    if pe > 0.0 {
        o2.push(po);
        e2.push(pe);
    }
    let x: f64 = o2.iter().zip(e2.iter()).map(|(o, e)| (o - e) * (o - e) / e).sum();
    (x, (o2.len() as f64 - 1.0).max(1.0))
}

fn run_stats(moduli: &[u64], seed: u64) -> Vec<(String, String, String)> {
    let n = 8192;
    let parms = sampler_parms(moduli, n);
    let k = moduli.len();
    let mut bad = Vec::new();
    let z = 6.2; // p < 1e-9 one-sided
    // honest stream: the library's own generator with a fixed seed
    let mut g = BlakeRNG::from_seed(PRNGSeed(Prng::new(seed).bytes64()));
    let mut dest = vec![0u64; n * k];
    let q0 = moduli[0];
    let signed = |v: u64| -> i64 { if v > q0 / 2 { v as i64 - q0 as i64 } else { v as i64 } };
    debug_assert!(q0 >= 64);
    // ternary
    let mut counts = [0f64; 3];
    let rounds = 8;
    for _ in 0..rounds {
        sample::ternary(&mut g, &parms, &mut dest);
        for i in 0..n {
            let s = signed(dest[i]);
            if (-1..=1).contains(&s) {
                counts[(s + 1) as usize] += 1.0;
            }
        }
    }
    let tot = (rounds * n) as f64;
    let (x, dof) = chi2(&counts, &[tot / 3.0; 3]);
    if x > chi2_threshold(dof, z) {
        bad.push(("samples/ternary/distribution".into(), "distribution".into(), format!("ternary counts {:?} over {} samples: chi2 = {:.1} with {} dof (threshold {:.1})", counts, tot, x, dof, chi2_threshold(dof, z))));
    }
    // centered binomial: difference of two Binomial(21, 1/2)
    let mut binom = [0f64; 22];
    let mut c = 1f64;
    for i in 0..=21 {
        binom[i] = c;
        c = c * (21 - i) as f64 / (i + 1) as f64;
    }
    let total_w: f64 = (2f64).powi(42);
    let mut pmf = vec![0f64; 43];
    for a in 0..=21usize {
        for b in 0..=21usize {
            pmf[a + 21 - b] += binom[a] * binom[b] / total_w;
        }
    }
    let mut obs = vec![0f64; 43];
    for _ in 0..rounds {
        sample::centered_binomial(&mut g, &parms, &mut dest);
        for i in 0..n {
            let s = signed(dest[i]);
            if (-21..=21).contains(&s) {
                obs[(s + 21) as usize] += 1.0;
            }
        }
    }
    let exp: Vec<f64> = pmf.iter().map(|p| p * tot).collect();
    let (x, dof) = chi2(&obs, &exp);
    if x > chi2_threshold(dof, z) {
        bad.push(("samples/centered_binomial/distribution".into(), "distribution".into(), format!("error samples over {} draws: chi2 = {:.1} with {} dof (threshold {:.1}) against Binomial(21,1/2) - Binomial(21,1/2)", tot, x, dof, chi2_threshold(dof, z))));
    }
    // uniform: 64 buckets (or the residues themselves for tiny moduli) per component
    let mut per = vec![vec![0f64; 64]; k];
    for _ in 0..rounds {
        sample::uniform(&mut g, &parms, &mut dest);
        for (j, &q) in moduli.iter().enumerate() {
            for i in 0..n {
                let v = dest[j * n + i];
                let b = if q <= 64 { v as usize } else { ((v as u128 * 64) / q as u128) as usize };
                per[j][b.min(63)] += 1.0;
            }
        }
    }
    // every residue of a small modulus must be reachable (a mask that is one bit short loses q-1)
    for (j, &q) in moduli.iter().enumerate() {
        if q <= 2048 {
            let mut seen = vec![false; q as usize];
            let rounds = ((40 * q as usize) + n - 1) / n; // >= 40 q draws: P(some residue missing) <= q e^-40
            for _ in 0..rounds.max(1) {
                sample::uniform(&mut g, &parms, &mut dest);
                for i in 0..n {
                    seen[dest[j * n + i] as usize] = true;
                }
            }
            if let Some(miss) = seen.iter().position(|s| !s) {
                bad.push(("samples/uniform/residue-unreachable".into(), "residue-unreachable".into(), format!("uniform sampling modulo {} never produced the residue {} in {} draws", q, miss, n * rounds.max(1))));
            }
        }
    }
    for (j, &q) in moduli.iter().enumerate() {
        let cells = if q <= 64 { q as usize } else { 64 };
        let exp: Vec<f64> = (0..cells)
            .map(|b| {
                if q <= 64 {
                    tot / q as f64
                } else {
                    // number of residues falling into bucket b
                    let lo = ((b as u128 * q as u128) + 63) / 64;
                    let hi = (((b + 1) as u128 * q as u128) + 63) / 64;
                    tot * (hi - lo) as f64 / q as f64
                }
            })
            .collect();
        let (x, dof) = chi2(&per[j][..cells], &exp);
        if x > chi2_threshold(dof, z) {
            bad.push(("samples/uniform/distribution".into(), "distribution".into(), format!("uniform samples modulo {} over {} draws: chi2 = {:.1} with {} dof (threshold {:.1})", q, tot, x, dof, chi2_threshold(dof, z))));
        }
    }
    position_stats(moduli, seed, &mut bad);
    bad
}

/// The pooled tests above cannot see a defect that sits at a few fixed coefficient positions
/// (e.g. the coefficient that straddles a buffer boundary of a block-wise sampler). Here every
/// position of a large ring gets its own test: the sum over `ROUNDS` polynomials of the sampled
/// value at position i has mean 0 (or (q-1)/2q per draw for the uniform sampler, values scaled by 1/q) and a known
/// variance; |z| > 7.5 at any position is reported (p < 1e-13 per position under the Gaussian
/// approximation; the summands are bounded, so the true tails are lighter).
fn position_stats(moduli: &[u64], seed: u64, bad: &mut Vec<(String, String, String)>) {
    const ROUNDS: usize = 48;
    let n = [1024usize, 2048, 4096][(seed % 3) as usize];
    let parms = sampler_parms(moduli, n);
    let k = moduli.len();
    let q0 = moduli[0];
    // exact integer arithmetic before the conversion: moduli go up to 60 bits, beyond f64's 53
    let signed = |v: u64| -> f64 { if v > q0 / 2 { -((q0 - v) as f64) } else { v as f64 } };
    let mut g = BlakeRNG::from_seed(PRNGSeed(Prng::new(seed ^ 0x706f_7369_7469_6f6e).bytes64()));
    let mut dest = vec![0u64; n * k];
    let zmax = 7.5f64;
    let r = ROUNDS as f64;
    let qf = q0 as f64;
    let cases: [(&str, f64, f64); 3] = [("ternary", 0.0, 2.0 / 3.0), ("centered_binomial", 0.0, 10.5), ("uniform", (qf - 1.0) / (2.0 * qf), (1.0 - 1.0 / (qf * qf)) / 12.0)];
    for (name, mean, var) in cases.iter() {
        let mut sums = vec![0f64; n];
        for _ in 0..ROUNDS {
            match *name {
                "ternary" => sample::ternary(&mut g, &parms, &mut dest),
                "centered_binomial" => sample::centered_binomial(&mut g, &parms, &mut dest),
                _ => sample::uniform(&mut g, &parms, &mut dest),
            }
            for i in 0..n {
                sums[i] += if *name == "uniform" { dest[i] as f64 / qf } else { signed(dest[i]) };
            }
        }
        let sd = (r * var).sqrt();
        let mut worst = (0usize, 0f64);
        for i in 0..n {
            let z = (sums[i] - r * mean) / sd;
            if z.abs() > worst.1.abs() {
                worst = (i, z);
            }
        }
        if worst.1.abs() > zmax {
            bad.push((
                format!("samples/{}/position-bias", name),
                "position-bias".into(),
                format!("{} sampler, ring degree {}, first modulus {}: over {} polynomials the values at coefficient position {} have mean {:.3} (specified {:.3}), z = {:.1} (threshold {})", name, n, q0, ROUNDS, worst.0, sums[worst.0] / r, mean, worst.1, zmax),
            ));
        }
    }
}

/// Moduli next to powers of two (2^k + 1, 2^k - 1, 2^k + 3 ...): rejection samplers and masks slip there.
fn special_modulus(rng: &mut Prng, min_bits: usize) -> u64 {
    loop {
        let k = rng.range(min_bits.max(1), 59) as u32;
        let d: i64 = *rng.pick(&[1i64, 1, 1, -1, 3, -3]);
        let v = (1i64 << k) + d;
        if v >= 2 && (64 - (v as u64).leading_zeros()) as usize >= min_bits {
            return v as u64;
        }
    }
}

fn gen_moduli(rng: &mut Prng, min_bits: usize) -> Vec<u64> {
    let k = rng.range(1, 6);
    let mut v: Vec<u64> = Vec::new();
    if rng.chance(1, 3) {
        let m = special_modulus(rng, min_bits);
        v.push(m);
    }
    for i in v.len()..k {
        // the first modulus is large enough to represent +-21 unambiguously in most runs; the bit
        // size is redrawn on every attempt (there are only two 2-bit moduli: a fixed size could spin)
        let m = loop {
            let bits = if i == 0 && rng.chance(3, 4) { rng.range(8.max(min_bits), 60) } else { rng.range(min_bits, 60) };
            let cand = (1u64 << (bits - 1)) + rng.below(1u64 << (bits - 1));
            let cand = if bits > 2 { cand | 1 } else { cand };
            if cand >= 2 && !v.contains(&cand) {
                break cand;
            }
        };
        v.push(m);
    }
    v
}

// =======================================================================================
// Driver

struct Budget {
    runs: usize,
}
fn budget(tier: Tier) -> Budget {
    match tier {
        Tier::Quick => Budget { runs: driver::scale(16000) },
        Tier::Thorough => Budget { runs: driver::scale(2400000) },
    }
}

fn viol(key: &str, class: &str, detail: &str, replay: Value) -> Violation {
    Violation { key: key.to_string(), class: class.to_string(), detail: detail.to_string(), replay }
}

fn one_run(i: usize, run_seed: u64, tier: Tier) -> RunOut {
    let mut out = RunOut::default();
    let mut log = LogHash::new();
    let root = Prng::new(run_seed);
    let mut rng = root.fork("scenario");
    match i % 16 {
        0..=6 => {
            // generator history
            let nops = rng.range(1, 24);
            let fill_only = rng.chance(2, 3);
            let mut pos = 0usize;
            let ops: Vec<GOp> = (0..nops)
                .map(|_| {
                    let op = if fill_only {
                        GOp::Fill(draw_len_at(&mut rng, pos))
                    } else {
                        match rng.below(4) {
                            0 => GOp::U32,
                            1 => GOp::U64,
                            _ => GOp::Fill(draw_len_at(&mut rng, pos)),
                        }
                    };
                    pos += match op {
                        GOp::Fill(l) => l,
                        GOp::U32 => 4,
                        GOp::U64 => 8,
                    };
                    op
                })
                .collect();
            let g = G1 { seed: rng.bytes64(), ops };
            let deep = tier == Tier::Thorough && i % 64 == 0;
            let (bad, probes, lh) = check_generator(&g, deep);
            log.u64(lh);
            out.count("evaluations", 1);
            out.count("part1.generator_histories", 1);
            for (k, v) in probes {
                out.count(k, v);
            }
            let crosses = {
                let mut pos = 0usize;
                let mut c = false;
                for o in &g.ops {
                    let n = match o {
                        GOp::Fill(n) => *n,
                        GOp::U32 => 4,
                        GOp::U64 => 8,
                    };
                    if n > 0 && pos / BUF != (pos + n) / BUF {
                        c = true;
                    }
                    pos += n;
                }
                c
            };
            if crosses {
                out.distinct.push(util::h64(format!("g|{:?}", g.ops).as_bytes()));
            }
            let replay = json!({"part": "generator", "seed_hex": util::hex(&g.seed), "ops": gops_json(&g.ops)});
            for (k, c, d) in bad {
                out.violations.push(viol(&k, &c, &d, replay.clone()));
            }
            if i % 1600 == 0 {
                out.sample = Some(replay);
            }
        }
        7..=10 => {
            let real = i % 16 == 10;
            let Some(scn) = (0..6).find_map(|_| gen_fscn(&mut rng, run_seed, real)) else {
                out.degenerate = true;
                return out;
            };
            out.count("evaluations", 1);
            match run_freshness(&scn) {
                Ok((bad, randomized, draws)) => {
                    out.count("part2.operation_histories", 1);
                    out.count(if scn.threads.len() > 1 { "part2.histories_on_simulated_threads" } else { "part2.histories_sequential" }, 1);
                    out.count("part2.entropy_draws_observed", draws);
                    out.count("part2.randomized_outputs", randomized);
                    if real {
                        out.count("part2.histories_with_real_os_entropy", 1);
                    } else {
                        log.str(&scn.to_json().to_string());
                        log.u64(draws);
                    }
                    if randomized >= 2 {
                        out.distinct.push(util::h64(format!("f|{}", scn.to_json()).as_bytes()));
                    }
                    for (k, c, d) in bad {
                        out.violations.push(viol(&k, &c, &d, scn.to_json()));
                    }
                }
                Err(e) => out.count(&format!("skipped.{}", e.split(':').next().unwrap_or("?").replace(' ', "_")), 1),
            }
            if i % 1600 == 7 {
                out.sample = Some(scn.to_json());
            }
        }
        11..=14 => {
            // adversarial stream through the generic Rng seam
            let sampler = *rng.pick(&["ternary", "centered_binomial", "uniform"]);
            let moduli = gen_moduli(&mut rng, 2);
            let n = *rng.pick(&[8usize, 64, 64, 256, 256, 1024, 2048]);
            let (pname, _) = PATTERNS[rng.usize_below(PATTERNS.len())];
            let aligned = rng.coin();
            let mut win_start = rng.below(6 * n as u64);
            if aligned {
                win_start -= win_start % 6;
            }
            let s = SScn { moduli, n, sampler: sampler.into(), pattern: pname.into(), win_start, win_len: rng.range(1, 96) as u64, seed: rng.next_u64() >> 1 };
            out.count("evaluations", 1);
            out.count("part3.adversarial_streams", 1);
            out.count(&format!("part3.pattern.{}", pname), 1);
            match run_sampler(&s) {
                Ok(bad) => {
                    log.str(&s.to_json().to_string());
                    let base: Vec<String> = s.moduli.iter().map(|m| (64 - m.leading_zeros()).to_string()).collect();
                    out.distinct.push(util::h64(format!("s|{}|{}|{}", s.sampler, s.pattern, base.join(".")).as_bytes()));
                    for (k, c, d) in bad {
                        out.violations.push(viol(&k, &c, &d, s.to_json()));
                    }
                }
                Err(e) => {
                    out.violations.push(viol(&format!("samples/{}/panic", s.sampler), "panic", &e, s.to_json()));
                }
            }
            if i % 1600 == 11 {
                out.sample = Some(s.to_json());
            }
        }
        _ => {
            // statistical test on an honest stream (fixed seeds => the unchanged tree cannot flake)
            if (i / 16) % 8 != 0 {
                out.count("evaluations", 0);
                // keep this slot cheap most of the time
                let g = G1 { seed: rng.bytes64(), ops: vec![GOp::Fill(draw_len(&mut rng)), GOp::Fill(draw_len(&mut rng))] };
                let (bad, _, lh) = check_generator(&g, false);
                log.u64(lh);
                out.count("evaluations", 1);
                out.count("part1.generator_histories", 1);
                let replay = json!({"part": "generator", "seed_hex": util::hex(&g.seed), "ops": gops_json(&g.ops)});
                for (k, c, d) in bad {
                    out.violations.push(viol(&k, &c, &d, replay.clone()));
                }
            } else {
                let mut moduli = gen_moduli(&mut rng, 7);
                // plus one small or special modulus for the residue-coverage test of the uniform sampler
                let extra = if rng.coin() { special_modulus(&mut rng, 2) } else { 2 + rng.below(300) };
                if !moduli.contains(&extra) && moduli.len() < 6 {
                    moduli.push(extra);
                }
                let seed = rng.next_u64() >> 1;
                out.count("evaluations", 1);
                out.count("part3.chi_square_batches", 1);
                let replay = json!({"part": "stats", "moduli": moduli, "stream_seed": seed});
                match catch_res(|| run_stats(&moduli, seed)) {
                    Ok(bad) => {
                        for (k, c, d) in bad {
                            out.violations.push(viol(&k, &c, &d, replay.clone()));
                        }
                    }
                    Err(p) => out.violations.push(viol("samples/stats/panic", "panic", &p, replay.clone())),
                }
                log.str(&replay.to_string());
            }
        }
    }
    out.log_hash = log.finish();
    out
}

pub fn run(tier: Tier, seed: u64) -> i32 {
    let b = budget(tier);
    let batch: Batch = driver::run_batch(PROP, seed, b.runs, 8, |i, s| one_run(i, s, tier));
    let mut extra = serde_json::Map::new();
    extra.insert("simulated_time".into(), json!({"unit": "logical events: generator calls / entropy draws / sampler invocations (the code under test reads no clock)", "events": batch.runs}));
    extra.insert("honest_note".into(), json!("sub-checks 1 and 3 contain no fault or schedule; they qualify only because the object under test is the nondeterminism seam (a stateful generator driven by call histories, samplers driven by an adversary-controlled random stream). Sub-check 2 uses the entropy provider and simulated threads."));
    let rep = Report {
        prop: PROP.into(),
        tier,
        seed,
        level: "exploration",
        rule: "7/16 of the runs: BlakeRNG call histories (fill_bytes lengths biased to 1..9, 4090..4102 and multiples of 4096, next_u32, next_u64) checked for same-seed determinism, chunking independence, non-repetition of 16-byte windows, seed sensitivity; 4/16: histories of key generations and encryptions on one context (sequential or on 2-3 simulated threads, entropy through the seeded provider, some with real OS entropy) checked for fresh masks / seeds / secret keys, equal masks under equal explicit generator state, well-formed encryption noise; 4/16: ternary / centered-binomial / uniform samplers driven by scripted random streams (pattern window inside an honest stream) for 1-6 moduli of 2-60 bits; 1/128: chi-square tests on honest streams at p < 1e-9. distinct_nontrivial = distinct generator histories crossing a refill boundary + distinct operation histories with >= 2 randomized outputs + distinct (sampler, stream pattern, base bit sizes) triples".into(),
        assumptions: vec![
            "collisions of 64-bit content hashes are ignored".into(),
            "the alignment-skipping behaviour of next_u32/next_u64 is not asserted beyond same-seed determinism".into(),
            "equality with blake3_xof(seed || counter) is reported as information, not asserted".into(),
            "statistical tests use fixed seeds and a rejection threshold of about p < 1e-9".into(),
        ],
        components: json!({"real": ["heathcliff util::BlakeRNG, util::rlwe::sample::{ternary, centered_binomial, uniform}, BlakeRNGFactory::get_rng (entropy seam), KeyGenerator, Encryptor"],
                            "stub": ["OS entropy (seeded provider; a few histories use real OS entropy)", "random streams handed to the samplers (scripted RngCore)", "thread scheduling in the multi-thread histories (baton scheduler)"]}),
        extra,
    };
    driver::finish(rep, &batch, &minimise, &crate::replay_fresh)
}

fn rerun(r: &Value) -> Option<Vec<(String, String, String)>> {
    match r["part"].as_str()? {
        "generator" => {
            let seed = util::unhex(r["seed_hex"].as_str()?)?;
            let mut s = [0u8; 64];
            s.copy_from_slice(&seed);
            let g = G1 { seed: s, ops: gops_from(&r["ops"])? };
            Some(check_generator(&g, false).0)
        }
        "freshness" => {
            let scn = FScn::from_json(r)?;
            run_freshness(&scn).ok().map(|x| x.0)
        }
        "sampler" => {
            let s = SScn::from_json(r)?;
            match run_sampler(&s) {
                Ok(b) => Some(b),
                Err(e) => Some(vec![(format!("samples/{}/panic", s.sampler), "panic".into(), e)]),
            }
        }
        "stats" => {
            let moduli = r["moduli"].as_array()?.iter().map(|x| x.as_u64()).collect::<Option<Vec<_>>>()?;
            let seed = r["stream_seed"].as_u64()?;
            Some(match catch_res(|| run_stats(&moduli, seed)) {
                Ok(b) => b,
                Err(p) => vec![("samples/stats/panic".into(), "panic".into(), p)],
            })
        }
        _ => None,
    }
}

fn minimise(v: &Violation) -> Violation {
    let holds = |r: &Value| rerun(r).map(|b| b.iter().any(|(k, _, _)| *k == v.key)).unwrap_or(false);
    let mut best = v.replay.clone();
    if !holds(&best) {
        return v.clone();
    }
    match best["part"].as_str() {
        Some("generator") => {
            // drop calls one at a time
            let mut ops = gops_from(&best["ops"]).unwrap_or_default();
            let mut i = 0;
            while i < ops.len() && ops.len() > 1 {
                let mut c = ops.clone();
                c.remove(i);
                let mut cand = best.clone();
                cand["ops"] = gops_json(&c);
                if holds(&cand) {
                    ops = c;
                    best = cand;
                } else {
                    i += 1;
                }
            }
        }
        Some("freshness") => {
            if let Some(mut scn) = FScn::from_json(&best) {
                let mut progress = true;
                while progress {
                    progress = false;
                    'o: for t in 0..scn.threads.len() {
                        for o in 0..scn.threads[t].len() {
                            let mut c = scn.clone();
                            c.threads[t].remove(o);
                            if c.threads[t].is_empty() && c.threads.len() > 1 {
                                c.threads.remove(t);
                            }
                            if c.threads.iter().all(|x| x.is_empty()) {
                                continue;
                            }
                            if holds(&c.to_json()) {
                                scn = c;
                                progress = true;
                                break 'o;
                            }
                        }
                    }
                }
                best = scn.to_json();
            }
        }
        Some("sampler") => {
            if let Some(mut s) = SScn::from_json(&best) {
                while s.moduli.len() > 1 {
                    let mut c = s.clone();
                    c.moduli.pop();
                    if holds(&c.to_json()) {
                        s = c;
                    } else {
                        break;
                    }
                }
                if s.n > 8 {
                    let mut c = s.clone();
                    c.n = 8;
                    if holds(&c.to_json()) {
                        s = c;
                    }
                }
                best = s.to_json();
            }
        }
        _ => {}
    }
    let detail = rerun(&best).and_then(|b| b.into_iter().find(|(k, _, _)| *k == v.key)).map(|(_, _, d)| d).unwrap_or_else(|| v.detail.clone());
    Violation { key: v.key.clone(), class: v.class.clone(), detail, replay: best }
}

pub fn replay(doc: &Value) -> i32 {
    let Some(bad) = rerun(&doc["replay"]) else {
        eprintln!("replay file malformed or scenario no longer runs");
        return 2;
    };
    let want = doc["key"].as_str().unwrap_or("");
    match bad.iter().find(|(k, _, _)| k == want).or(bad.first()) {
        Some((k, c, d)) => {
            println!("VIOLATION property={} replay={}", PROP, doc["__path"].as_str().unwrap_or("?"));
            println!("  key={} class={} {}", k, c, d);
            1
        }
        None => {
            println!("{} replay: property held on this history", PROP);
            0
        }
    }
}
