//! C18 — multiparty protocols agree across parties and message orders, keep plaintexts, and a
//! party that has not received every other party's message refuses to finish.
//!
//! System: n real `Participant`s (optionally each with its own independently built context),
//! common random tape, connected by the discrete-event network of `net.rs`. A run is a list of
//! sessions executed in the same order at every party. Oracles use god's-eye access to all
//! parties (sum of secret keys, ordinary Decryptor under the summed key).

use crate::driver::{self, Batch, Report, RunOut, Tier, Violation};
use crate::gen::{self, ParamSpec, BFV, BGV, CKKS};
use crate::io_fault::FaultyReader;
use crate::net::{self, EvId, FaultPlan, NetOutcome, Order, SessionIo};
use crate::prng::{self, Prng};
use crate::util::{self, catch_res, LogHash};
use heathcliff::multiparty::participant::*;
use heathcliff::multiparty::utils::{BFVShareSampler, BFVSimdShareEncoder};
use heathcliff::util::{BlakeRNG, PRNGSeed};
use heathcliff::*;
use num_complex::Complex;
use rand::SeedableRng;
use serde_json::{json, Value};
use std::sync::Arc;

pub const PROP: &str = "C18";

#[derive(Clone, Copy, Debug, PartialEq, Eq)]
pub enum Kind {
    PublicKey,
    RelinKeys,
    Decrypt,
    KeySwitch,
    PublicKeySwitch,
    CipherToShares,
    SharesToCipher,
    RoundTrip,
    RevealSecret,
}

impl Kind {
    pub fn name(self) -> &'static str {
        match self {
            Kind::PublicKey => "public-key",
            Kind::RelinKeys => "relin-keys",
            Kind::Decrypt => "decrypt",
            Kind::KeySwitch => "key-switch",
            Kind::PublicKeySwitch => "public-key-switch",
            Kind::CipherToShares => "cipher-to-shares",
            Kind::SharesToCipher => "shares-to-cipher",
            Kind::RoundTrip => "round-trip",
            Kind::RevealSecret => "reveal-secret-key",
        }
    }
    pub fn from_name(s: &str) -> Option<Kind> {
        [Kind::PublicKey, Kind::RelinKeys, Kind::Decrypt, Kind::KeySwitch, Kind::PublicKeySwitch, Kind::CipherToShares, Kind::SharesToCipher, Kind::RoundTrip, Kind::RevealSecret]
            .into_iter()
            .find(|k| k.name() == s)
    }
}

#[derive(Clone, Debug)]
pub struct Scn {
    pub spec: ParamSpec,
    pub n: usize,
    pub own_ctx: bool,
    pub tape: u64,
    pub ent: u64,
    pub msg_seed: u64,
    pub sessions: Vec<Kind>,
    /// per session: how many times the input ciphertext is mod-switched down before the protocol (0 = fresh)
    pub preps: Vec<usize>,
    /// per session: the parties that call finish() (empty = everybody); the others contribute their
    /// messages and drop the protocol object, as the crate's own tests do
    pub finishers: Vec<Vec<usize>>,
    /// faults are injected into exactly this session (and the run stops after it)
    pub fault: Option<(usize, FaultPlan)>,
    /// delivery order: seeded, or (for replay) forced per session
    pub order_seed: u64,
    pub forced: Option<Vec<Vec<EvId>>>,
}

impl Scn {
    pub fn to_json(&self, orders: Option<&[Vec<EvId>]>) -> Value {
        json!({
            "spec": self.spec.to_json(),
            "parties": self.n,
            "own_context_per_party": self.own_ctx,
            "tape_seed": self.tape,
            "entropy_seed": self.ent,
            "message_seed": self.msg_seed,
            "sessions": self.sessions.iter().map(|k| k.name()).collect::<Vec<_>>(),
            "mod_switches_before_session": self.preps,
            "parties_calling_finish": self.finishers,
            "fault": self.fault.as_ref().map(|(i, p)| json!({"session": i, "plan": p.to_json()})),
            "order_seed": self.order_seed,
            "event_orders": orders.map(|o| o.iter().map(|s| s.iter().map(|(k, r, f, t)| json!([k, r, f, t])).collect::<Vec<_>>()).collect::<Vec<_>>()),
            "event_order_legend": "[kind, round, from, to]; kind 0 = party starts, 1 = party writes its message for one recipient, 2 = message handed to the recipient",
        })
    }
    pub fn from_json(v: &Value) -> Option<Scn> {
        let fault = if v["fault"].is_null() {
            None
        } else {
            Some((v["fault"]["session"].as_u64()? as usize, FaultPlan::from_json(&v["fault"]["plan"])?))
        };
        let forced = v["event_orders"].as_array().map(|o| {
            o.iter()
                .map(|s| {
                    s.as_array()
                        .map(|l| l.iter().filter_map(|x| Some((x[0].as_u64()? as u8, x[1].as_u64()? as usize, x[2].as_u64()? as usize, x[3].as_u64()? as usize))).collect::<Vec<_>>())
                        .unwrap_or_default()
                })
                .collect::<Vec<_>>()
        });
        Some(Scn {
            spec: ParamSpec::from_json(&v["spec"])?,
            n: v["parties"].as_u64()? as usize,
            own_ctx: v["own_context_per_party"].as_bool()?,
            tape: v["tape_seed"].as_u64()?,
            ent: v["entropy_seed"].as_u64()?,
            msg_seed: v["message_seed"].as_u64()?,
            sessions: v["sessions"].as_array()?.iter().map(|x| x.as_str().and_then(Kind::from_name)).collect::<Option<Vec<_>>>()?,
            preps: v["mod_switches_before_session"].as_array().map(|a| a.iter().map(|x| x.as_u64().unwrap_or(0) as usize).collect()).unwrap_or_default(),
            finishers: v["parties_calling_finish"]
                .as_array()
                .map(|a| a.iter().map(|l| l.as_array().map(|l| l.iter().filter_map(|x| x.as_u64().map(|y| y as usize)).collect()).unwrap_or_default()).collect())
                .unwrap_or_default(),
            fault,
            order_seed: v["order_seed"].as_u64()?,
            forced,
        })
    }
}

// ---------------------------------------------------------------------------------------
// Session adapters

macro_rules! one_round_io {
    ($name:ident, $proto:ty) => {
        struct $name<'a> {
            protos: Vec<Option<$proto>>,
            n: usize,
            _m: std::marker::PhantomData<&'a ()>,
        }
        impl<'a> SessionIo for $name<'a> {
            fn rounds(&self) -> usize {
                1
            }
            fn senders(&self, _r: usize) -> Vec<usize> {
                (0..self.n).collect()
            }
            fn receivers(&self, _r: usize) -> Vec<usize> {
                (0..self.n).collect()
            }
            fn send(&mut self, party: usize, _round: usize) -> Result<Vec<u8>, String> {
                let mut v = Vec::new();
                self.protos[party].as_ref().unwrap().send(&mut v).map_err(|e| e.to_string())?;
                Ok(v)
            }
            fn recv(&mut self, to: usize, from: usize, _round: usize, r: &mut FaultyReader) -> std::io::Result<()> {
                self.protos[to].as_mut().unwrap().receive(from, r)
            }
            fn advance(&mut self, _party: usize, _round: usize) {}
        }
    };
}

one_round_io!(PkIo, PublicKeyGenerationProtocol<'a>);

/// shares -> cipher: as in the crate's own usage, parties 1..n-1 send to party 0 (the
/// aggregator), which alone finishes.
struct S2cIo<'a> {
    protos: Vec<Option<KeySwitchProtocol<'a>>>,
    n: usize,
}
impl<'a> SessionIo for S2cIo<'a> {
    fn rounds(&self) -> usize {
        1
    }
    fn senders(&self, _r: usize) -> Vec<usize> {
        (1..self.n).collect()
    }
    fn receivers(&self, _r: usize) -> Vec<usize> {
        vec![0]
    }
    fn send(&mut self, party: usize, _round: usize) -> Result<Vec<u8>, String> {
        let mut v = Vec::new();
        self.protos[party].as_ref().unwrap().send(&mut v).map_err(|e| e.to_string())?;
        Ok(v)
    }
    fn recv(&mut self, to: usize, from: usize, _round: usize, r: &mut FaultyReader) -> std::io::Result<()> {
        self.protos[to].as_mut().unwrap().receive(from, r)
    }
    fn advance(&mut self, _party: usize, _round: usize) {}
}
one_round_io!(KsIo, KeySwitchProtocol<'a>);
one_round_io!(DecIo, DecryptionProtocol<'a>);
one_round_io!(PksIo, PublicKeySwitchProtocol<'a>);
one_round_io!(RevIo, SecretKeyRevelationProtocol<'a>);

struct RelinIo<'a> {
    protos: Vec<Option<RelinKeysGenerationProtocol<'a>>>,
    n: usize,
}
impl<'a> SessionIo for RelinIo<'a> {
    fn rounds(&self) -> usize {
        2
    }
    fn senders(&self, _r: usize) -> Vec<usize> {
        (0..self.n).collect()
    }
    fn receivers(&self, _r: usize) -> Vec<usize> {
        (0..self.n).collect()
    }
    fn send(&mut self, party: usize, round: usize) -> Result<Vec<u8>, String> {
        let mut v = Vec::new();
        let p = self.protos[party].as_ref().unwrap();
        if round == 0 { p.send_step1(&mut v) } else { p.send_step2(&mut v) }.map_err(|e| e.to_string())?;
        Ok(v)
    }
    fn recv(&mut self, to: usize, from: usize, round: usize, r: &mut FaultyReader) -> std::io::Result<()> {
        let p = self.protos[to].as_mut().unwrap();
        if round == 0 {
            p.receive_step1(from, r)
        } else {
            p.receive_step2(from, r)
        }
    }
    fn advance(&mut self, party: usize, _round: usize) {
        self.protos[party].as_mut().unwrap().step2();
    }
}

struct C2sIo<'a> {
    protos: Vec<Option<CipherToSharesProtocol<'a, Vec<u64>>>>,
    n: usize,
}
impl<'a> SessionIo for C2sIo<'a> {
    fn rounds(&self) -> usize {
        1
    }
    fn senders(&self, _r: usize) -> Vec<usize> {
        (1..self.n).collect()
    }
    fn receivers(&self, _r: usize) -> Vec<usize> {
        vec![0]
    }
    fn send(&mut self, party: usize, _round: usize) -> Result<Vec<u8>, String> {
        let mut v = Vec::new();
        self.protos[party].as_ref().unwrap().send(&mut v).map_err(|e| e.to_string())?;
        Ok(v)
    }
    fn recv(&mut self, to: usize, from: usize, _round: usize, r: &mut FaultyReader) -> std::io::Result<()> {
        self.protos[to].as_mut().unwrap().receive(from, r)
    }
    fn advance(&mut self, _party: usize, _round: usize) {}
}

// ---------------------------------------------------------------------------------------
// Execution

pub struct Found {
    pub key: String,
    pub class: String,
    pub detail: String,
}

#[derive(Default)]
pub struct ScnResult {
    pub found: Vec<Found>,
    pub orders: Vec<Vec<EvId>>,
    pub counters: Vec<(String, u64)>,
    pub distinct: Vec<u64>,
    pub log: Vec<u64>,
    pub setup_error: Option<String>,
    pub sessions_run: usize,
}

impl ScnResult {
    fn count(&mut self, k: &str, n: u64) {
        if n > 0 {
            self.counters.push((k.to_string(), n));
        }
    }
}

enum Msg {
    Slots(Vec<u64>),
    Complex(Vec<Complex<f64>>),
}

struct Env<'e> {
    scn: &'e Scn,
    ctx0: Arc<HeContext>,
    batch: Option<BatchEncoder>,
    ckks: Option<CKKSEncoder>,
    eval: Evaluator,
    t: u64,
}

const CKKS_SCALE_BITS: u32 = 30;

impl<'e> Env<'e> {
    fn fresh_msg(&self, rng: &mut Prng) -> Msg {
        if self.scn.spec.scheme == CKKS {
            let k = self.ckks.as_ref().unwrap().slot_count();
            Msg::Complex((0..k).map(|_| Complex::new(rng.below(9) as f64 - 4.0, rng.below(9) as f64 - 4.0)).collect())
        } else {
            let mut v: Vec<u64> = (0..self.scn.spec.n).map(|_| rng.below(self.t)).collect();
            if rng.chance(1, 8) {
                v = vec![1, 3, 5, 7];
                v.resize(self.scn.spec.n, 0);
            } else if rng.chance(1, 5) {
                // the slot values of a sparse polynomial (a few non-zero coefficients with zeros in
                // between and above): "all plaintexts" includes those whose polynomial has holes
                let n = self.scn.spec.n;
                let mut p = Plaintext::new();
                p.resize(n);
                for _ in 0..rng.range(1, 3) {
                    let at = rng.usize_below(n);
                    p.data_mut()[at] = 1 + rng.below(self.t - 1);
                }
                v = self.batch.as_ref().unwrap().decode_new(&p);
                v.resize(n, 0);
            }
            Msg::Slots(v)
        }
    }
    fn encode(&self, m: &Msg) -> Plaintext {
        match m {
            Msg::Slots(v) => self.batch.as_ref().unwrap().encode_new(v),
            Msg::Complex(v) => self.ckks.as_ref().unwrap().encode_c64_array_new(v, None, (1u64 << CKKS_SCALE_BITS) as f64),
        }
    }
    /// Does the plaintext decode to the message (exactly for BFV/BGV, within tolerance for CKKS)?
    fn matches(&self, p: &Plaintext, m: &Msg, tol: f64) -> Result<(), String> {
        match m {
            Msg::Slots(v) => {
                let got = self.batch.as_ref().unwrap().decode_new(p);
                if got[..] == v[..] {
                    Ok(())
                } else {
                    let i = (0..v.len()).find(|&i| got.get(i) != v.get(i)).unwrap_or(0);
                    Err(format!("slot {} is {:?}, expected {} (first 4 got {:?}, expected {:?})", i, got.get(i), v[i], &got[..4.min(got.len())], &v[..4.min(v.len())]))
                }
            }
            Msg::Complex(v) => {
                let got = self.ckks.as_ref().unwrap().decode_new(p);
                for i in 0..v.len() {
                    let d = (got[i] - v[i]).norm();
                    if !(d <= tol) {
                        return Err(format!("slot {} is {}, expected {} (|diff| {:.3e} > tolerance {:.1e})", i, got[i], v[i], d, tol));
                    }
                }
                Ok(())
            }
        }
    }
    /// The representation the ordinary decryptor expects (BFV: coefficient form, BGV/CKKS: NTT form).
    fn to_default_form(&self, c: Ciphertext) -> Ciphertext {
        let want_ntt = self.scn.spec.scheme != BFV;
        if c.is_ntt_form() == want_ntt {
            c
        } else if want_ntt {
            catch_res(|| self.eval.transform_to_ntt_new(&c)).unwrap_or(c)
        } else {
            catch_res(|| self.eval.transform_from_ntt_new(&c)).unwrap_or(c)
        }
    }
    fn product(a: &Msg, b: &Msg, t: u64) -> Msg {
        match (a, b) {
            (Msg::Slots(x), Msg::Slots(y)) => Msg::Slots(x.iter().zip(y.iter()).map(|(&p, &q)| ((p as u128 * q as u128) % t as u128) as u64).collect()),
            (Msg::Complex(x), Msg::Complex(y)) => Msg::Complex(x.iter().zip(y.iter()).map(|(p, q)| p * q).collect()),
            _ => unreachable!(),
        }
    }
    fn square(m: &Msg, t: u64) -> Msg {
        match m {
            Msg::Slots(v) => Msg::Slots(v.iter().map(|&x| ((x as u128 * x as u128) % t as u128) as u64).collect()),
            Msg::Complex(v) => Msg::Complex(v.iter().map(|x| x * x).collect()),
        }
    }
}

fn add_keys(ctx: &HeContext, keys: &[SecretKey]) -> SecretKey {
    let cd = ctx.key_context_data().unwrap();
    let moduli: Vec<u64> = cd.parms().coeff_modulus().iter().map(|m| m.value()).collect();
    let n = cd.parms().poly_modulus_degree();
    let mut sum = keys[0].clone();
    for k in &keys[1..] {
        for (j, &q) in moduli.iter().enumerate() {
            for i in 0..n {
                let idx = j * n + i;
                let v = (sum.data()[idx] as u128 + k.data()[idx] as u128) % q as u128;
                sum.data_mut()[idx] = v as u64;
            }
        }
    }
    sum
}

fn is_refusal_of_scheme(msg: &str) -> bool {
    msg.contains("[Invalid argument]") || msg.contains("[Logic error]") || msg.contains("not supported") || msg.contains("Unsupported")
}

/// Judge the transport-level outcome that is common to all sessions.
fn judge_net(res: &mut ScnResult, kind: Kind, scheme: &str, out: &NetOutcome, faulty: bool) {
    for (p, m) in &out.unexpected {
        res.found.push(Found {
            key: format!("{}/{}/local-step-failed", kind.name(), scheme),
            class: "local-step-failed".into(),
            detail: format!("party {}: {}", p, m),
        });
    }
    for (p, r) in &out.advance_on_incomplete {
        if r.is_ok() {
            res.found.push(Found {
                key: format!("{}/{}/advanced-with-missing-message", kind.name(), scheme),
                class: "advanced-with-missing-message".into(),
                detail: format!("party {} went on to the next round although a message of the current round never arrived", p),
            });
        }
    }
    if !faulty && out.complete.iter().any(|c| !c) {
        res.found.push(Found {
            key: format!("{}/{}/no-progress", kind.name(), scheme),
            class: "no-progress".into(),
            detail: format!("fault-free network, yet parties {:?} did not receive every message within the event budget", out.complete),
        });
    }
    res.count("net.events", out.events);
    res.count("fired.lost", out.lost_fired);
    res.count("fired.truncated", out.truncated_fired);
    res.count("fired.sender_crash", out.crash_fired);
    res.count("fired.fragmented_reads", out.fragmented_reads);
    res.count("fired.duplicate_delivery", out.dup_fired);
    res.count("fired.retransmission_after_truncation", out.retransmit_fired);
    res.count("probe.message_buffered_before_local_round", out.buffered_early);
    res.count("probe.delivery_out_of_index_order", out.out_of_index_order as u64);
    res.count("probe.receive_between_own_sends", out.receive_between_own_sends);
    res.count("recv_errors", out.recv_errors);
}

/// Apply the completeness oracle to one party's finish() and return the value if it finished.
fn judge_finish<T>(res: &mut ScnResult, kind: Kind, scheme: &str, party: usize, out: &NetOutcome, r: Result<T, String>) -> Option<T> {
    if out.crashed[party] {
        return None;
    }
    if out.dup_seen[party] && out.complete[party] {
        // a duplicate was handed to this party: the property promises nothing about idempotence, so
        // neither refusing nor finishing is judged (only "incomplete => refuses" below still applies)
        res.count("probe.complete_party_saw_duplicate", 1);
        return None;
    }
    if out.retx_seen[party] && out.complete[party] && r.is_err() {
        // a full copy after a truncated one: refusing the second copy (or the finish) is not judged,
        // but a value that is returned must be the right one (judged by the caller)
        res.count("probe.refused_after_retransmission", 1);
        return None;
    }
    match (out.complete[party], r) {
        (true, Ok(v)) => Some(v),
        (true, Err(m)) => {
            res.found.push(Found {
                key: format!("{}/{}/refused-although-complete", kind.name(), scheme),
                class: "refused-although-complete".into(),
                detail: format!("party {} received every message but finish failed: {}", party, m),
            });
            None
        }
        (false, Ok(_)) => {
            res.found.push(Found {
                key: format!("{}/{}/finished-with-missing-message", kind.name(), scheme),
                class: "finished-with-missing-message".into(),
                detail: format!("party {} finished although at least one peer message never arrived (lost, truncated or peer crashed)", party),
            });
            None
        }
        (false, Err(_)) => {
            res.count("probe.refused_on_incomplete", 1);
            None
        }
    }
}

pub fn run_scenario(scn: &Scn) -> ScnResult {
    let mut res = ScnResult::default();
    let r = gen::with_entropy(scn.ent, |_| catch_res(|| run_inner(scn, &mut res)));
    match r {
        Ok(Ok(())) => {}
        Ok(Err(e)) => res.setup_error = Some(e),
        Err(p) => res.setup_error = Some(format!("harness panic: {}", p)),
    }
    res
}

fn run_inner(scn: &Scn, res: &mut ScnResult) -> Result<(), String> {
    let n = scn.n;
    let scheme = gen::scheme_name(scn.spec.scheme);
    let ctxs: Vec<Arc<HeContext>> = if scn.own_ctx {
        (0..n).map(|_| gen::build_context(&scn.spec)).collect::<Result<Vec<_>, _>>()?
    } else {
        let c = gen::build_context(&scn.spec)?;
        (0..n).map(|_| c.clone()).collect()
    };
    let ctx0 = ctxs[0].clone();
    let tape = PRNGSeed(Prng::new(scn.tape).bytes64());
    let mut parties: Vec<Participant> = (0..n).map(|i| Participant::new(n, i, ctxs[i].clone(), BlakeRNG::from_seed(tape))).collect();
    let env = Env {
        scn,
        batch: if scn.spec.scheme != CKKS { Some(BatchEncoder::new(ctx0.clone())) } else { None },
        ckks: if scn.spec.scheme == CKKS { Some(CKKSEncoder::new(ctx0.clone())) } else { None },
        eval: Evaluator::new(ctx0.clone()),
        ctx0: ctx0.clone(),
        t: scn.spec.t,
    };
    let mut mrng = Prng::new(scn.msg_seed);
    let sks: Vec<SecretKey> = parties.iter().map(|p| p.secret_key().clone()).collect();
    let mut s = add_keys(&ctx0, &sks);
    let mut dec_s = Decryptor::new(ctx0.clone(), s.clone());
    // after the parties have adopted new key shares the old collective public key is void: the harness
    // then encrypts symmetrically under the new summed key
    let mut adopted_new_keys = false;
    let ckks_tol = 0.5;

    let mut pk: Option<PublicKey> = None;
    let mut rlk: Option<RelinKeys> = None;
    let mut shares: Option<(Vec<Vec<u64>>, Vec<u64>)> = None; // (per-party shares, expected sum)

    for (idx, &kind) in scn.sessions.iter().enumerate() {
        let (plan, faulty) = match &scn.fault {
            Some((i, p)) if *i == idx => (p.clone(), true),
            _ => (FaultPlan::default(), false),
        };
        let order = match &scn.forced {
            Some(f) => Order::Forced(f.get(idx).cloned().unwrap_or_default()),
            None => Order::Seeded(prng::mix(scn.order_seed, idx as u64, 7)),
        };
        let frag_seed = prng::mix(scn.order_seed, idx as u64, 8);
        res.sessions_run += 1;
        res.count(&format!("sessions.{}.{}", kind.name(), scheme), 1);
        let nclass = if n <= 2 { "n2" } else if n <= 4 { "n3-4" } else { "n5-6" };

        // everything except key generation works on a ciphertext under the collective key
        let need_cipher = !matches!(kind, Kind::PublicKey | Kind::RelinKeys | Kind::SharesToCipher | Kind::RevealSecret);
        let mut msg = None;
        let mut cipher = None;
        if need_cipher {
            let Some(pk) = &pk else { return Err("session list needs a public key first".into()) };
            let m = env.fresh_msg(&mut mrng);
            let enc = Encryptor::new(ctx0.clone()).set_public_key(pk.clone()).set_secret_key(s.clone());
            let encrypt = |p: &Plaintext| -> Ciphertext {
                if adopted_new_keys {
                    let mut c = Ciphertext::new();
                    enc.encrypt_symmetric(p, &mut c);
                    c
                } else {
                    enc.encrypt_new(p)
                }
            };
            let mut m = m;
            let mut c = encrypt(&env.encode(&m));
            if scn.preps.get(idx).copied().unwrap_or(0) % 1000 >= 100 {
                if let Some(rk) = &rlk {
                    // an evaluated ciphertext: product of two encryptions, relinearized with the *collective* key
                    let m2 = env.fresh_msg(&mut mrng);
                    let c2 = encrypt(&env.encode(&m2));
                    let prod = catch_res(|| env.eval.relinearize_new(&env.eval.multiply_new(&c, &c2), rk));
                    if let Ok(p) = prod {
                        c = p;
                        m = Env::product(&m, &m2, env.t);
                        res.count("probe.session_on_product_relinearized_with_collective_key", 1);
                    }
                }
            }
            // optionally work below the first level (BGV then carries a correction factor != 1)
            for _ in 0..(scn.preps.get(idx).copied().unwrap_or(0) % 100) {
                let has_next = ctx0.get_context_data(c.parms_id()).and_then(|cd| cd.next_context_data()).is_some();
                if !has_next {
                    break;
                }
                c = env.eval.mod_switch_to_next_new(&c);
                res.count("probe.session_on_mod_switched_ciphertext", 1);
            }
            // key switching accepts both representations: sometimes hand it the non-default one
            if scn.preps.get(idx).copied().unwrap_or(0) % 10000 >= 1000 && matches!(kind, Kind::KeySwitch | Kind::PublicKeySwitch) {
                let flipped = if c.is_ntt_form() { catch_res(|| env.eval.transform_from_ntt_new(&c)) } else { catch_res(|| env.eval.transform_to_ntt_new(&c)) };
                if let Ok(f) = flipped {
                    c = f;
                    res.count("probe.session_on_non_default_representation", 1);
                }
            }
            cipher = Some(c);
            msg = Some(m);
        }

        let mut session_orders: Vec<EvId> = Vec::new();
        let fin = scn.finishers.get(idx).cloned().unwrap_or_default();
        let finishes = |i: usize| fin.is_empty() || fin.contains(&i);
        match kind {
            Kind::PublicKey => {
                let protos: Vec<_> = parties.iter_mut().map(|p| Some(p.generate_public_key())).collect();
                let mut io = PkIo { protos, n, _m: Default::default() };
                let out = net::drive(n, &mut io, &plan, &order, frag_seed);
                judge_net(res, kind, scheme, &out, faulty);
                let mut keys = Vec::new();
                for i in 0..n {
                    let p = io.protos[i].take().unwrap();
                    if !finishes(i) {
                        res.count("probe.party_contributed_without_finishing", 1);
                        continue;
                    }
                    let r = catch_res(|| p.finish());
                    if let Some(k) = judge_finish(res, kind, scheme, i, &out, r) {
                        keys.push((i, k));
                    }
                }
                for w in keys.windows(2) {
                    if w[0].1.data() != w[1].1.data() || w[0].1.parms_id() != w[1].1.parms_id() {
                        res.found.push(Found {
                            key: format!("{}/{}/parties-disagree", kind.name(), scheme),
                            class: "parties-disagree".into(),
                            detail: format!("parties {} and {} derived different collective public keys", w[0].0, w[1].0),
                        });
                    }
                }
                if let Some((i, k)) = keys.first() {
                    // corresponds to the sum of the secret keys: an ordinary decryptor under s decrypts fresh encryptions
                    let m = env.fresh_msg(&mut mrng);
                    let k2 = k.clone();
                    let chk = catch_res(|| {
                        let enc = Encryptor::new(ctx0.clone()).set_public_key(k2);
                        let c = enc.encrypt_new(&env.encode(&m));
                        env.matches(&dec_s.decrypt_new(&c), &m, ckks_tol)
                    });
                    match chk {
                        Ok(Ok(())) => {}
                        Ok(Err(d)) | Err(d) => res.found.push(Found {
                            key: format!("{}/{}/key-does-not-match-secret-sum", kind.name(), scheme),
                            class: "key-does-not-match-secret-sum".into(),
                            detail: format!("the collective public key of party {} does not decrypt under the sum of the secret keys: {}", i, d),
                        }),
                    }
                    pk = Some(k.clone());
                }
                session_orders = out.history.clone();
            }
            Kind::RelinKeys => {
                let protos: Vec<_> = parties.iter_mut().map(|p| Some(p.generate_relin_keys())).collect();
                let mut io = RelinIo { protos, n };
                let out = net::drive(n, &mut io, &plan, &order, frag_seed);
                judge_net(res, kind, scheme, &out, faulty);
                let mut keys = Vec::new();
                for i in 0..n {
                    let p = io.protos[i].take().unwrap();
                    if !out.at_last_round[i] {
                        // stuck before round 2: drive() already asked it to go on and recorded the answer
                        continue;
                    }
                    if !finishes(i) {
                        res.count("probe.party_contributed_without_finishing", 1);
                        continue;
                    }
                    let r = catch_res(|| p.finish());
                    if let Some(k) = judge_finish(res, kind, scheme, i, &out, r) {
                        keys.push((i, k));
                    }
                }
                for w in keys.windows(2) {
                    let a = w[0].1.as_kswitch_keys();
                    let b = w[1].1.as_kswitch_keys();
                    let same = a.parms_id() == b.parms_id()
                        && a.data().len() == b.data().len()
                        && a.data().iter().zip(b.data().iter()).all(|(x, y)| x.len() == y.len() && x.iter().zip(y.iter()).all(|(p, q)| p.data() == q.data()));
                    if !same {
                        res.found.push(Found {
                            key: format!("{}/{}/parties-disagree", kind.name(), scheme),
                            class: "parties-disagree".into(),
                            detail: format!("parties {} and {} derived different collective relinearization keys", w[0].0, w[1].0),
                        });
                    }
                }
                if let Some((i, k)) = keys.first() {
                    let m = env.fresh_msg(&mut mrng);
                    let k2 = k.clone();
                    let s2 = s.clone();
                    let chk = catch_res(|| {
                        let enc = Encryptor::new(ctx0.clone()).set_secret_key(s2);
                        let mut c = Ciphertext::new();
                        enc.encrypt_symmetric(&env.encode(&m), &mut c);
                        let sq = env.eval.square_new(&c);
                        let rl = env.eval.relinearize_new(&sq, &k2);
                        env.matches(&dec_s.decrypt_new(&rl), &Env::square(&m, env.t), 0.5)
                    });
                    match chk {
                        Ok(Ok(())) => {}
                        Ok(Err(d)) | Err(d) => res.found.push(Found {
                            key: format!("{}/{}/key-does-not-match-secret-sum", kind.name(), scheme),
                            class: "key-does-not-match-secret-sum".into(),
                            detail: format!("relinearizing a square with the collective key of party {} does not decrypt to the squared message under the summed secret key: {}", i, d),
                        }),
                    }
                    rlk = Some(k.clone());
                }
                let _ = &rlk;
                session_orders = out.history.clone();
            }
            Kind::Decrypt => {
                let c = cipher.clone().unwrap();
                let started = catch_res(|| parties.iter().map(|p| Some(p.decrypt(&c))).collect::<Vec<_>>());
                let protos = match started {
                    Ok(p) => p,
                    Err(m) if is_refusal_of_scheme(&m) => {
                        res.count(&format!("not_accepted.{}.{}", kind.name(), scheme), 1);
                        continue;
                    }
                    Err(m) => return Err(format!("decrypt start panicked: {}", m)),
                };
                let mut io = DecIo { protos, n, _m: Default::default() };
                let out = net::drive(n, &mut io, &plan, &order, frag_seed);
                judge_net(res, kind, scheme, &out, faulty);
                for i in 0..n {
                    let p = io.protos[i].take().unwrap();
                    let r = catch_res(|| p.finish());
                    if let Some(pl) = judge_finish(res, kind, scheme, i, &out, r) {
                        if let Err(d) = catch_res(|| env.matches(&pl, msg.as_ref().unwrap(), ckks_tol)).unwrap_or_else(Err) {
                            res.found.push(Found {
                                key: format!("{}/{}/wrong-plaintext", kind.name(), scheme),
                                class: "wrong-plaintext".into(),
                                detail: format!("collective decryption at party {} ({} parties) does not return the encrypted plaintext: {}", i, n, d),
                            });
                        }
                    }
                }
                session_orders = out.history.clone();
            }
            Kind::KeySwitch => {
                let c = cipher.clone().unwrap();
                let new_keys: Vec<SecretKey> = (0..n).map(|i| KeyGenerator::new(ctxs[i].clone()).secret_key().clone()).collect();
                let started = catch_res(|| parties.iter().zip(new_keys.iter()).map(|(p, k)| Some(p.key_switch(&c, k))).collect::<Vec<_>>());
                let protos = match started {
                    Ok(p) => p,
                    Err(m) if is_refusal_of_scheme(&m) => {
                        res.count(&format!("not_accepted.{}.{}", kind.name(), scheme), 1);
                        continue;
                    }
                    Err(m) => return Err(format!("key_switch start panicked: {}", m)),
                };
                let mut io = KsIo { protos, n, _m: Default::default() };
                let out = net::drive(n, &mut io, &plan, &order, frag_seed);
                judge_net(res, kind, scheme, &out, faulty);
                let s_new = add_keys(&ctx0, &new_keys);
                let dec_new = Decryptor::new(ctx0.clone(), s_new.clone());
                for i in 0..n {
                    let p = io.protos[i].take().unwrap();
                    let r = catch_res(|| p.finish());
                    if let Some(ct) = judge_finish(res, kind, scheme, i, &out, r) {
                        let ct = env.to_default_form(ct);
                        if let Err(d) = catch_res(|| env.matches(&dec_new.decrypt_new(&ct), msg.as_ref().unwrap(), ckks_tol)).unwrap_or_else(Err) {
                            res.found.push(Found {
                                key: format!("{}/{}/wrong-plaintext", kind.name(), scheme),
                                class: "wrong-plaintext".into(),
                                detail: format!("after secret-key switching, party {}'s ciphertext does not decrypt to the plaintext under the sum of the new keys: {}", i, d),
                            });
                        }
                    }
                }
                session_orders = out.history.clone();
                drop(io);
                if !faulty && scn.preps.get(idx).copied().unwrap_or(0) >= 10000 {
                    // the parties adopt the new shares (a key rotation): everything afterwards runs under them
                    for (p, k) in parties.iter_mut().zip(new_keys.iter()) {
                        p.update_secret_key(k);
                    }
                    s = s_new;
                    dec_s = Decryptor::new(ctx0.clone(), s.clone());
                    adopted_new_keys = true;
                    rlk = None;
                    res.count("probe.parties_adopted_new_key_shares", 1);
                }
            }
            Kind::PublicKeySwitch => {
                let c = cipher.clone().unwrap();
                let target = KeyGenerator::new(ctx0.clone());
                let tpk = target.create_public_key(false);
                let started = catch_res(|| parties.iter().map(|p| Some(p.public_key_switch(&c, &tpk))).collect::<Vec<_>>());
                let protos = match started {
                    Ok(p) => p,
                    Err(m) if is_refusal_of_scheme(&m) => {
                        res.count(&format!("not_accepted.{}.{}", kind.name(), scheme), 1);
                        continue;
                    }
                    Err(m) => return Err(format!("public_key_switch start panicked: {}", m)),
                };
                let mut io = PksIo { protos, n, _m: Default::default() };
                let out = net::drive(n, &mut io, &plan, &order, frag_seed);
                judge_net(res, kind, scheme, &out, faulty);
                let dec_t = Decryptor::new(ctx0.clone(), target.secret_key().clone());
                for i in 0..n {
                    let p = io.protos[i].take().unwrap();
                    let r = catch_res(|| p.finish());
                    if let Some(ct) = judge_finish(res, kind, scheme, i, &out, r) {
                        let ct = env.to_default_form(ct);
                        if let Err(d) = catch_res(|| env.matches(&dec_t.decrypt_new(&ct), msg.as_ref().unwrap(), ckks_tol)).unwrap_or_else(Err) {
                            res.found.push(Found {
                                key: format!("{}/{}/wrong-plaintext", kind.name(), scheme),
                                class: "wrong-plaintext".into(),
                                detail: format!("after public-key switching, party {}'s ciphertext does not decrypt to the plaintext under the target secret key: {}", i, d),
                            });
                        }
                    }
                }
                session_orders = out.history.clone();
            }
            Kind::RevealSecret => {
                let protos: Vec<_> = parties.iter().map(|p| Some(p.reveal_secret_key())).collect();
                let mut io = RevIo { protos, n, _m: Default::default() };
                let out = net::drive(n, &mut io, &plan, &order, frag_seed);
                judge_net(res, kind, scheme, &out, faulty);
                for i in 0..n {
                    let p = io.protos[i].take().unwrap();
                    let r = catch_res(|| p.finish());
                    if let Some(k) = judge_finish(res, kind, scheme, i, &out, r) {
                        if k.data() != s.data() {
                            let j = (0..s.data().len()).find(|&j| k.data()[j] != s.data()[j]).unwrap_or(0);
                            res.found.push(Found {
                                key: format!("{}/{}/not-the-sum-of-the-secret-keys", kind.name(), scheme),
                                class: "not-the-sum-of-the-secret-keys".into(),
                                detail: format!("party {} reconstructed a secret key that differs from the sum of all parties' keys (first at word {})", i, j),
                            });
                        }
                    }
                }
                session_orders = out.history.clone();
            }
            Kind::CipherToShares | Kind::RoundTrip => {
                if scn.spec.scheme == CKKS {
                    res.count(&format!("not_accepted.{}.{}", kind.name(), scheme), 1);
                    continue;
                }
                let c = cipher.clone().unwrap();
                let samplers: Vec<BFVShareSampler> = (0..n).map(|i| BFVShareSampler::new(ctxs[i].clone())).collect();
                let encoders: Vec<BFVSimdShareEncoder> = (0..n).map(|i| BFVSimdShareEncoder::new(ctxs[i].clone())).collect();
                let started = catch_res(|| {
                    parties.iter().enumerate().map(|(i, p)| Some(p.cipher_to_shares(c.clone(), &samplers[i], &encoders[i]))).collect::<Vec<_>>()
                });
                let protos = match started {
                    Ok(p) => p,
                    Err(m) if is_refusal_of_scheme(&m) => {
                        res.count(&format!("not_accepted.{}.{}", kind.name(), scheme), 1);
                        continue;
                    }
                    Err(m) => return Err(format!("cipher_to_shares start panicked: {}", m)),
                };
                let mut io = C2sIo { protos, n };
                let out = net::drive(n, &mut io, &plan, &order, frag_seed);
                judge_net(res, kind, scheme, &out, faulty);
                let mut got: Vec<Option<Vec<u64>>> = Vec::new();
                for i in 0..n {
                    let p = io.protos[i].take().unwrap();
                    let e = &encoders[i];
                    let r = catch_res(|| p.finish(e));
                    // parties other than 0 receive nothing: they are always "complete"
                    got.push(judge_finish(res, kind, scheme, i, &out, r));
                }
                session_orders = out.history.clone();
                if got.iter().all(|g| g.is_some()) {
                    let Msg::Slots(m) = msg.as_ref().unwrap() else { unreachable!() };
                    let mut sum = vec![0u64; scn.spec.n];
                    for g in got.iter().flatten() {
                        for j in 0..scn.spec.n {
                            sum[j] = ((sum[j] as u128 + g[j] as u128) % env.t as u128) as u64;
                        }
                    }
                    if sum[..] != m[..] {
                        let j = (0..m.len()).find(|&j| sum[j] != m[j]).unwrap_or(0);
                        res.found.push(Found {
                            key: format!("cipher-to-shares/{}/shares-do-not-sum-to-plaintext", scheme),
                            class: "shares-do-not-sum-to-plaintext".into(),
                            detail: format!("the additive shares of {} parties sum to {} in slot {}, the plaintext holds {}", n, sum[j], j, m[j]),
                        });
                    } else if kind == Kind::RoundTrip {
                        shares = Some((got.into_iter().flatten().collect(), m.clone()));
                    }
                }
                if kind == Kind::RoundTrip && !faulty {
                    if let Some((sh, expect)) = shares.take() {
                        shares_to_cipher(scn, res, &mut parties, &ctxs, &env, &dec_s, sh, expect, &FaultPlan::default(), false, &order, frag_seed, &mut session_orders, "round-trip")?;
                    }
                }
            }
            Kind::SharesToCipher => {
                if scn.spec.scheme == CKKS {
                    res.count(&format!("not_accepted.{}.{}", kind.name(), scheme), 1);
                    continue;
                }
                // shares are slot vectors; a party may hand in fewer values than there are slots (the
                // rest counts as zero, as in the crate's own test), all equal ones, or none
                let sh: Vec<Vec<u64>> = (0..n)
                    .map(|_| match mrng.below(6) {
                        0 => {
                            let len = mrng.range(0, scn.spec.n - 1);
                            let c = mrng.below(env.t);
                            vec![c; len]
                        }
                        1 => (0..mrng.range(1, scn.spec.n - 1)).map(|_| mrng.below(env.t)).collect(),
                        _ => (0..scn.spec.n).map(|_| mrng.below(env.t)).collect(),
                    })
                    .collect();
                let mut expect = vec![0u64; scn.spec.n];
                for v in &sh {
                    for j in 0..v.len() {
                        expect[j] = ((expect[j] as u128 + v[j] as u128) % env.t as u128) as u64;
                    }
                }
                shares_to_cipher(scn, res, &mut parties, &ctxs, &env, &dec_s, sh, expect, &plan, faulty, &order, frag_seed, &mut session_orders, "shares-to-cipher")?;
            }
        }
        // distinct: (session kind, n, scheme, delivery-order hash, fault set)
        let oh = net::order_hash(&session_orders);
        res.log.push(oh);
        let canonical = {
            let mut c = session_orders.clone();
            c.sort_by_key(|(k, r, f, t)| (*r, *k, *f, *t));
            c == session_orders
        };
        if !canonical || faulty {
            res.distinct.push(util::h64(format!("{}|{}|{}|{}|{}", kind.name(), n, scheme, oh, plan.to_json()).as_bytes()));
        }
        res.count(&format!("sessions_by_size.{}", nclass), 1);
        res.orders.push(session_orders);
        if faulty {
            break;
        }
    }
    let _ = env.ctx0.clone();
    Ok(())
}

#[allow(clippy::too_many_arguments)]
fn shares_to_cipher(
    scn: &Scn, res: &mut ScnResult, parties: &mut [Participant], ctxs: &[Arc<HeContext>], env: &Env, dec_s: &Decryptor,
    sh: Vec<Vec<u64>>, expect: Vec<u64>, plan: &FaultPlan, faulty: bool, order: &Order, frag_seed: u64,
    session_orders: &mut Vec<EvId>, label: &str,
) -> Result<(), String> {
    let n = scn.n;
    let scheme = gen::scheme_name(scn.spec.scheme);
    let kind = Kind::SharesToCipher;
    let encoders: Vec<BFVSimdShareEncoder> = (0..n).map(|i| BFVSimdShareEncoder::new(ctxs[i].clone())).collect();
    // every party must consume the common tape identically even when the protocol refuses the scheme:
    // start all parties under one catch
    let started = catch_res(|| {
        parties.iter_mut().enumerate().map(|(i, p)| Some(p.shares_to_cipher(&sh[i], &encoders[i]))).collect::<Vec<_>>()
    });
    let protos = match started {
        Ok(p) => p,
        Err(m) if is_refusal_of_scheme(&m) => {
            res.count(&format!("not_accepted.{}.{}", label, scheme), 1);
            return Ok(());
        }
        Err(m) => return Err(format!("shares_to_cipher start panicked: {}", m)),
    };
    let mut io = S2cIo { protos, n };
    let out = net::drive(n, &mut io, plan, order, prng::mix(frag_seed, 1, 1));
    judge_net(res, kind, scheme, &out, faulty);
    for i in 0..1 {
        let p = io.protos[i].take().unwrap();
        let r = catch_res(|| p.finish());
        if let Some(ct) = judge_finish(res, kind, scheme, i, &out, r) {
            let chk = catch_res(|| env.matches(&dec_s.decrypt_new(&ct), &Msg::Slots(expect.clone()), 0.0)).unwrap_or_else(Err);
            if let Err(d) = chk {
                res.found.push(Found {
                    key: format!("{}/{}/wrong-plaintext", label, scheme),
                    class: "wrong-plaintext".into(),
                    detail: format!("the ciphertext party {} obtained from the additive shares does not decrypt (under the summed secret key) to the sum of the shares: {}", i, d),
                });
            }
        }
    }
    session_orders.extend(out.history.iter().cloned());
    Ok(())
}

// ---------------------------------------------------------------------------------------
// Generation

fn gen_spec(rng: &mut Prng, need_relin: bool) -> Option<ParamSpec> {
    let scheme = *rng.pick(&[BFV, BFV, BGV, CKKS]);
    let n = *rng.pick(&[8usize, 16, 32, 64]);
    let primes = rng.range(if need_relin { 3 } else { 2 }, 4).max(if rng.coin() { 3 } else { 2 });
    let factor = 2 * n as u64;
    let mut q = Vec::new();
    for i in 0..primes {
        // the last prime is the special prime: make it the largest
        let bits = if i + 1 == primes { rng.range(55, 60) } else { rng.range(40, 54) };
        q.push(gen::find_prime(rng, factor, bits, &q)?);
    }
    let mut tbits = rng.range(13, 20);
    // odd but legitimate shape, one spec in eight: a small data prime in the middle of the chain and
    // a plain modulus larger than it (no fast plain lift; residues of t-multiples need reducing);
    // not where a product is computed (a square needs the noise room of an ordinary shape)
    if scheme != CKKS && primes >= 3 && !need_relin && rng.chance(1, 8) {
        let small = rng.range(20, 28);
        let at = rng.range(1, primes - 2);
        let mut others = q.clone();
        others.remove(at);
        q[at] = gen::find_prime(rng, factor, small, &others)?;
        tbits = rng.range(small.saturating_sub(2), small + 3).min(30);
    }
    let t = if scheme == CKKS { 0 } else { gen::find_prime(rng, factor, tbits, &q)? };
    // one spec in eight leaves the modulus chain unexpanded (an ordinary option of HeContext::new):
    // the only data level then has chain index 0 but all the data primes
    let expand_chain = !rng.chance(1, 8);
    Some(ParamSpec { scheme, n, q, t, expand_chain, special_enc: false })
}

fn gen_scn(rng: &mut Prng, run_seed: u64, max_n: usize) -> Option<Scn> {
    let n = match rng.below(10) {
        0..=3 => 2,
        4..=6 => 3,
        7 => 4,
        8 => 5,
        _ => 6,
    }
    .min(max_n);
    let mut sessions = vec![Kind::PublicKey];
    let with_relin = rng.chance(1, 3);
    if with_relin {
        sessions.push(Kind::RelinKeys);
    }
    let spec = gen_spec(rng, with_relin)?;
    let pool = [Kind::Decrypt, Kind::Decrypt, Kind::KeySwitch, Kind::KeySwitch, Kind::PublicKeySwitch, Kind::PublicKeySwitch, Kind::CipherToShares, Kind::CipherToShares, Kind::SharesToCipher, Kind::SharesToCipher, Kind::RoundTrip, Kind::RoundTrip, Kind::RevealSecret];
    for _ in 0..rng.range(1, 3) {
        sessions.push(*rng.pick(&pool));
    }
    let preps: Vec<usize> = sessions
        .iter()
        .map(|_| (if rng.chance(1, 3) { rng.range(1, 2) } else { 0 }) + if with_relin && rng.chance(1, 3) { 100 } else { 0 } + if rng.chance(1, 3) { 1000 } else { 0 } + if rng.coin() { 10000 } else { 0 })
        .collect();
    let finishers: Vec<Vec<usize>> = sessions
        .iter()
        .map(|k| {
            if matches!(k, Kind::PublicKey | Kind::RelinKeys) && rng.chance(1, 3) {
                // party 0 always finishes (its output is the one used afterwards)
                let mut v = vec![0usize];
                for p in 1..n {
                    if rng.chance(1, 3) {
                        v.push(p);
                    }
                }
                v
            } else {
                Vec::new()
            }
        })
        .collect();
    Some(Scn {
        spec,
        n,
        preps,
        finishers,
        own_ctx: rng.coin(),
        tape: prng::mix(run_seed, 0x7A9E, 0),
        ent: prng::mix(run_seed, 0xE27, 0),
        msg_seed: prng::mix(run_seed, 0x356, 0),
        sessions,
        fault: None,
        order_seed: prng::mix(run_seed, 0x08D, 0),
        forced: None,
    })
}

/// All (round, from, to) messages of a session kind.
fn messages_of(kind: Kind, n: usize) -> Vec<(usize, usize, usize)> {
    let mut v = Vec::new();
    let rounds = if kind == Kind::RelinKeys { 2 } else { 1 };
    for r in 0..rounds {
        for f in 0..n {
            for t in 0..n {
                if f == t {
                    continue;
                }
                if matches!(kind, Kind::CipherToShares | Kind::RoundTrip | Kind::SharesToCipher) && (t != 0 || f == 0) {
                    continue;
                }
                v.push((r, f, t));
            }
        }
    }
    v
}

fn gen_fault(rng: &mut Prng, scn: &Scn) -> (usize, FaultPlan) {
    let idx = rng.usize_below(scn.sessions.len());
    let kind = scn.sessions[idx];
    let msgs = messages_of(kind, scn.n);
    let mut plan = FaultPlan::default();
    plan.fragment = rng.coin();
    match rng.below(8) {
        0 | 1 => {
            for _ in 0..rng.range(1, 2) {
                plan.lost.insert(*rng.pick(&msgs));
            }
        }
        5 | 6 => {
            // at-least-once transport: a retransmission of one message while another one is lost
            plan.dup.insert(*rng.pick(&msgs));
            if rng.chance(3, 4) {
                plan.lost.insert(*rng.pick(&msgs));
            }
        }
        7 => {
            for _ in 0..rng.range(1, 3) {
                plan.dup.insert(*rng.pick(&msgs));
            }
            plan.lost.insert(*rng.pick(&msgs));
        }
        2 => {
            let m = *rng.pick(&msgs);
            plan.truncated.insert(m, if rng.coin() { rng.usize_below(400) } else { rng.usize_below(2400) });
            // half the time the sender transmits the message again, in full
            if rng.coin() {
                plan.retransmit.insert(m);
            }
        }
        3 => {
            let rounds = if kind == Kind::RelinKeys { 2 } else { 1 };
            plan.crash = Some((rng.usize_below(scn.n), rng.usize_below(rounds), rng.usize_below(scn.n)));
        }
        _ => {
            plan.lost.insert(*rng.pick(&msgs));
            plan.truncated.insert(*rng.pick(&msgs), rng.usize_below(2000));
        }
    }
    (idx, plan)
}

fn to_violation(scn: &Scn, f: &Found, orders: &[Vec<EvId>]) -> Violation {
    Violation {
        key: f.key.clone(),
        class: f.class.clone(),
        detail: format!(
            "{} parties{}, {} ({}), sessions {:?}{}: {}",
            scn.n,
            if scn.own_ctx { " with independently built contexts" } else { "" },
            gen::scheme_name(scn.spec.scheme),
            scn.spec.class(),
            scn.sessions.iter().map(|k| k.name()).collect::<Vec<_>>(),
            scn.fault.as_ref().map(|(i, p)| format!(", faults in session {}: {}", i, p.to_json())).unwrap_or_default(),
            f.detail
        ),
        replay: json!({"scenario": scn.to_json(Some(orders))}),
    }
}

struct Budget {
    runs: usize,
}

fn budget(tier: Tier) -> Budget {
    match tier {
        Tier::Quick => Budget { runs: driver::scale(24000) },
        Tier::Thorough => Budget { runs: driver::scale(4800000) },
    }
}

fn absorb(out: &mut RunOut, log: &mut LogHash, scn: &Scn, r: ScnResult) {
    if let Some(e) = &r.setup_error {
        out.count(&format!("skipped.{}", e.split(':').next().unwrap_or("?").replace(' ', "_")), 1);
    }
    for (k, v) in &r.counters {
        out.count(k, *v);
    }
    out.count("evaluations", r.sessions_run as u64);
    out.distinct.extend(r.distinct.iter().cloned());
    for h in &r.log {
        log.u64(*h);
    }
    for f in &r.found {
        log.str(&f.key);
        out.violations.push(to_violation(scn, f, &r.orders));
    }
}

fn one_run(i: usize, run_seed: u64) -> RunOut {
    let mut out = RunOut::default();
    let mut log = LogHash::new();
    let root = Prng::new(run_seed);
    let mut rng = root.fork("scenario");
    let mode = i % 4; // 0,1: fault-free; 2: random faults; 3: enumerated single losses (n <= 3)
    let Some(mut scn) = (0..8).find_map(|_| gen_scn(&mut rng, run_seed, if mode == 3 { 3 } else { 6 })) else {
        out.degenerate = true;
        return out;
    };
    let mut frng = root.fork("faults");
    match mode {
        0 | 1 => {
            let r = run_scenario(&scn);
            if r.setup_error.is_some() && r.sessions_run == 0 {
                out.degenerate = true;
            }
            out.count("runs.fault_free", 1);
            if i % 50 == 0 || i < 2 {
                out.sample = Some(json!({"scenario": scn.to_json(Some(&r.orders))}));
            }
            absorb(&mut out, &mut log, &scn, r);
        }
        2 => {
            scn.fault = Some(gen_fault(&mut frng, &scn));
            let r = run_scenario(&scn);
            out.count("runs.random_faults", 1);
            if i % 50 == 2 {
                out.sample = Some(json!({"scenario": scn.to_json(Some(&r.orders))}));
            }
            absorb(&mut out, &mut log, &scn, r);
        }
        _ => {
            // every single-message loss of one session
            let idx = frng.usize_below(scn.sessions.len());
            let msgs = messages_of(scn.sessions[idx], scn.n);
            out.count("runs.enumerated_single_loss", 1);
            for m in msgs {
                let mut s2 = scn.clone();
                let mut plan = FaultPlan::default();
                plan.lost.insert(m);
                s2.fault = Some((idx, plan));
                let r = run_scenario(&s2);
                out.count("single_loss_cases", 1);
                absorb(&mut out, &mut log, &s2, r);
            }
        }
    }
    out.log_hash = log.finish();
    out
}

pub fn run(tier: Tier, seed: u64) -> i32 {
    let b = budget(tier);
    let mut batch: Batch = driver::run_batch(PROP, seed, b.runs, 6, |i, s| one_run(i, s));
    let evals = batch.counters.get("evaluations").copied().unwrap_or(0);
    let mut extra = serde_json::Map::new();
    extra.insert("scenarios".into(), json!(batch.runs));
    extra.insert("simulated_time".into(), json!({"unit": "logical network events (the code under test reads no clock)", "events": batch.counters.get("net.events").copied().unwrap_or(0)}));
    let rep = Report {
        prop: PROP.into(),
        tier,
        seed,
        level: "exploration",
        rule: "seeded scenarios: n in 2..6 parties (each optionally with an independently built context), BFV/BGV/CKKS, N in {8..64}, 2-4 primes, session lists (collective public key, optional relinearization keys, then decrypt / key switch / public-key switch / cipher-to-shares / shares-to-cipher / round trip) over a discrete-event network with seeded latencies; half the runs fault-free, a quarter with random loss / truncation / sender crash / fragmentation in one session, a quarter enumerating every single-message loss of one session for n <= 3. evaluations = protocol sessions executed. distinct_nontrivial = distinct (session kind, n, scheme, delivery-order hash, fault set) where the delivery order differs from canonical index order or a fault was injected".into(),
        assumptions: vec![
            "the application delivers a message to the protocol object only once the local state machine has reached its round (buffering is the application's job)".into(),
            "duplicate deliveries are injected, but a party that received everything plus a duplicate is not judged (the property does not promise idempotence); a party that is still missing a message must refuse, duplicates or not".into(),
            "a receive that returns Err or panics counts as 'message not received'".into(),
            "CKKS results are compared within an absolute tolerance of 0.05 (0.5 after squaring) at scale 2^30".into(),
        ],
        components: json!({"real": ["heathcliff multiparty::participant (all protocols), multiparty::utils, serialize.rs (PolynomialSerializer), KeyGenerator, Encryptor, Decryptor, Evaluator"],
                            "stub": ["transport between parties (discrete-event network with faults)", "application-side buffering of early messages", "OS entropy (seeded provider)"]}),
        extra,
    };
    batch.runs = evals.max(1) as usize;
    driver::finish(rep, &batch, &minimise, &crate::replay_fresh)
}

fn reproduces(scn: &Scn, key: &str) -> Option<(Found, Vec<Vec<EvId>>)> {
    let r = run_scenario(scn);
    let orders = r.orders;
    r.found.into_iter().find(|f| f.key == key).map(|f| (f, orders))
}

/// Shrink: drop sessions, parties, faults; canonicalise delivery orders.
fn minimise(v: &Violation) -> Violation {
    let Some(mut scn) = Scn::from_json(&v.replay["scenario"]) else { return v.clone() };
    let forced_orig = scn.forced.take();
    let Some((mut best_f, mut best_o)) = reproduces(&scn, &v.key) else {
        // only reproduces with the recorded order
        scn.forced = forced_orig;
        return v.clone();
    };
    let mut progress = true;
    while progress {
        progress = false;
        // fewer parties
        if scn.n > 2 && scn.fault.is_none() {
            let mut c = scn.clone();
            c.n -= 1;
            for f in c.finishers.iter_mut() {
                f.retain(|&p| p < c.n);
            }
            if let Some((f, o)) = reproduces(&c, &v.key) {
                scn = c;
                best_f = f;
                best_o = o;
                progress = true;
                continue;
            }
        }
        // drop a session (never the first: it provides the public key)
        for i in (1..scn.sessions.len()).rev() {
            let mut c = scn.clone();
            c.sessions.remove(i);
            if i < c.preps.len() {
                c.preps.remove(i);
            }
            if i < c.finishers.len() {
                c.finishers.remove(i);
            }
            if let Some((fi, p)) = &scn.fault {
                if *fi == i {
                    continue;
                } else if *fi > i {
                    c.fault = Some((fi - 1, p.clone()));
                }
            }
            if let Some((f, o)) = reproduces(&c, &v.key) {
                scn = c;
                best_f = f;
                best_o = o;
                progress = true;
                break;
            }
        }
        if progress {
            continue;
        }
        // drop faults one at a time
        if let Some((fi, p)) = scn.fault.clone() {
            let mut cands = Vec::new();
            for l in &p.lost {
                let mut q = p.clone();
                q.lost.remove(l);
                cands.push(q);
            }
            for k in p.truncated.keys() {
                let mut q = p.clone();
                q.truncated.remove(k);
                cands.push(q);
            }
            for d in &p.dup {
                let mut q = p.clone();
                q.dup.remove(d);
                cands.push(q);
            }
            if p.crash.is_some() {
                let mut q = p.clone();
                q.crash = None;
                cands.push(q);
            }
            if p.fragment {
                let mut q = p.clone();
                q.fragment = false;
                cands.push(q);
            }
            for q in cands {
                let mut c = scn.clone();
                c.fault = if q.is_empty() && !q.fragment { None } else { Some((fi, q)) };
                if let Some((f, o)) = reproduces(&c, &v.key) {
                    scn = c;
                    best_f = f;
                    best_o = o;
                    progress = true;
                    break;
                }
            }
        }
        if progress {
            continue;
        }
        if scn.own_ctx {
            let mut c = scn.clone();
            c.own_ctx = false;
            if let Some((f, o)) = reproduces(&c, &v.key) {
                scn = c;
                best_f = f;
                best_o = o;
                progress = true;
            }
        }
    }
    // canonical delivery order if the violation does not need a particular one
    let mut c = scn.clone();
    c.forced = Some(best_o.iter().map(|s| { let mut s = s.clone(); s.sort_by_key(|(k, r, f, t)| (*r, *k, *f, *t)); s }).collect());
    if let Some((f, o)) = reproduces(&c, &v.key) {
        best_f = f;
        best_o = o;
    }
    to_violation(&scn, &best_f, &best_o)
}

pub fn replay(doc: &Value) -> i32 {
    let Some(scn) = Scn::from_json(&doc["replay"]["scenario"]) else {
        eprintln!("replay file malformed");
        return 2;
    };
    let r = run_scenario(&scn);
    if let Some(e) = &r.setup_error {
        if r.found.is_empty() {
            eprintln!("replay diverged: scenario did not run: {}", e);
            return 2;
        }
    }
    if let Some(forced) = &scn.forced {
        // the forced delivery order must have been realisable
        for (i, want) in forced.iter().enumerate() {
            if let Some(gotten) = r.orders.get(i) {
                if gotten != want {
                    eprintln!("replay diverged: delivery order of session {} could not be reproduced", i);
                    return 2;
                }
            }
        }
    }
    let want = doc["key"].as_str().unwrap_or("");
    match r.found.iter().find(|f| f.key == want).or(r.found.first()) {
        Some(f) => {
            println!("VIOLATION property={} replay={}", PROP, doc["__path"].as_str().unwrap_or("?"));
            println!("  key={} class={} {}", f.key, f.class, f.detail);
            1
        }
        None => {
            println!("{} replay: property held on this history ({} sessions)", PROP, r.sessions_run);
            0
        }
    }
}
