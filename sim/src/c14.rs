//! C14 — serialization round-trips every object exactly, sizes exact, across contexts.
//!
//! System: an *owner* node (context, keys, encrypt/decrypt) and an *evaluator* node whose context
//! is built only from the received EncryptionParameters bytes. They are connected by ordered byte
//! pipes that fragment on both the write and the read side (short accepts, short reads,
//! Interrupted; no loss — loss is C15). Each run ("deployment") sends a PRNG-chosen sequence of
//! objects back-to-back on one stream (parameters first, a sentinel last); the evaluator restores
//! them, performs a few deterministic operations and streams results back.

use crate::driver::{self, Batch, Report, RunOut, Tier, Violation};
use crate::gen::{self, ParamSpec, SpecOpts, World, BFV, CKKS};
use crate::io_fault::{FaultyReader, FaultyWriter, Script, Step};
use crate::objs::{self, Obj, Tag};
use crate::prng::{self, Prng};
use crate::util::{self, catch_res, LogHash};
use heathcliff::*;
use serde_json::{json, Value};
use std::sync::Arc;

pub const PROP: &str = "C14";
const SENTINEL: u64 = 0x5E47_1E1D_0B1E_C7ED;

#[derive(Clone, Debug)]
pub struct Scn {
    pub spec: ParamSpec,
    pub ent: u64,
    /// (kind, object seed) in stream order
    pub objects: Vec<(String, u64)>,
    pub wscript: Script,
    pub rscript: Script,
    pub ops_seed: u64,
    /// 0: none. 1: between the owner's and the peer's construction the same thread builds a context
    /// of twice the ring degree over the same primes. 2: that larger context is built before the
    /// owner's, and the peer's context is built on a fresh thread. (Whatever a context derives from
    /// its parameters must not depend on which other contexts the thread has built.)
    pub decoy: u64,
}

impl Scn {
    pub fn to_json(&self) -> Value {
        json!({
            "spec": self.spec.to_json(),
            "entropy_seed": self.ent,
            "objects": self.objects.iter().map(|(k, s)| json!([k, s])).collect::<Vec<_>>(),
            "write_script": self.wscript.to_json(),
            "read_script": self.rscript.to_json(),
            "ops_seed": self.ops_seed,
            "decoy": self.decoy,
        })
    }
    pub fn from_json(v: &Value) -> Option<Scn> {
        Some(Scn {
            spec: ParamSpec::from_json(&v["spec"])?,
            ent: v["entropy_seed"].as_u64()?,
            objects: v["objects"].as_array()?.iter().map(|x| Some((x[0].as_str()?.to_string(), x[1].as_u64()?))).collect::<Option<Vec<_>>>()?,
            wscript: Script::from_json(&v["write_script"])?,
            rscript: Script::from_json(&v["read_script"])?,
            ops_seed: v["ops_seed"].as_u64()?,
            decoy: v["decoy"].as_u64().unwrap_or(0),
        })
    }
}

pub struct Found {
    pub key: String,
    pub class: String,
    pub detail: String,
}

#[derive(Default)]
pub struct Res {
    pub found: Vec<Found>,
    pub counters: Vec<(String, u64)>,
    pub distinct: Vec<u64>,
    pub distinct_frag: Vec<u64>,
    pub log: LogHash,
    pub degenerate: bool,
    pub objects_checked: u64,
}

impl Res {
    fn count(&mut self, k: &str, n: u64) {
        if n > 0 {
            self.counters.push((k.to_string(), n));
        }
    }
    fn bad(&mut self, ty: &str, class: &str, detail: String) {
        self.found.push(Found { key: format!("{}/{}", ty.replace(['<', '>'], "_"), class), class: class.to_string(), detail });
    }
}

fn ser_plain(p: &Plaintext) -> Vec<u8> {
    let mut v = Vec::new();
    p.serialize(&mut v).unwrap();
    v
}
fn ser_ct(c: &Ciphertext, ctx: &HeContext) -> Vec<u8> {
    let mut v = Vec::new();
    c.serialize_full(ctx, &mut v).unwrap();
    v
}

/// Transport script without hard faults and without Ok(0): short accepts and Interrupted only.
fn transport_script(rng: &mut Prng) -> Script {
    let mut s = Script::draw(rng, false);
    s.steps.retain(|x| !matches!(x, Step::Zero));
    s
}

pub fn run_scenario(scn: &Scn) -> Res {
    let mut res = Res::default();
    let r = gen::with_entropy(scn.ent, |_| catch_res(|| run_inner(scn, &mut res)));
    match r {
        Ok(Ok(())) => {}
        Ok(Err(e)) => {
            res.count(&format!("skipped.{}", e.split(':').next().unwrap_or("?").replace(' ', "_")), 1);
            res.degenerate = res.objects_checked == 0;
        }
        Err(p) => {
            res.count("skipped.harness_panic", 1);
            res.found.push(Found { key: "harness/panic".into(), class: "harness-panic".into(), detail: p });
        }
    }
    res
}

fn run_inner(scn: &Scn, res: &mut Res) -> Result<(), String> {
    // ---- (decoy: a context of twice the degree over the same primes, on this thread)
    let decoy_spec = ParamSpec { n: scn.spec.n * 2, ..scn.spec.clone() };
    if scn.decoy == 2 {
        let _ = catch_res(|| gen::build_world(&decoy_spec));
        res.count("probe.decoy_context_before_owner", 1);
    }
    // ---- owner node A
    let a = gen::build_world(&scn.spec)?;
    let mut stream_objs: Vec<Obj> = vec![Obj::Params(a.parms.clone())];
    for (kind, seed) in &scn.objects {
        let mut r = Prng::new(*seed);
        let k = kind.clone();
        match catch_res(|| objs::gen_obj(&mut r, &a, &k)) {
            Ok(Some(o)) => stream_objs.push(o),
            Ok(None) => res.count("skipped.kind_unavailable", 1),
            Err(e) => return Err(format!("generator panicked: {}", e)),
        }
    }
    stream_objs.push(Obj::U64(SENTINEL));

    // ---- A writes everything back-to-back through a fragmenting writer
    let mut fw = FaultyWriter::new(scn.wscript.clone());
    let mut boundaries = vec![0usize];
    let mut announced = Vec::new();
    for o in &stream_objs {
        let ty = o.tag().name();
        let ann = catch_res(|| o.announced_size(&a.ctx)).map_err(|e| format!("announced_size panicked: {}", e))?;
        let before = fw.sink.len();
        match catch_res(|| o.ser(&a.ctx, &mut fw)) {
            Ok(Ok(n)) => {
                let wrote = fw.sink.len() - before;
                if n != wrote {
                    res.bad(ty, "returned-count-differs", format!("serialize of {} returned {} but {} bytes reached the stream", o.class(), n, wrote));
                }
                if ann != wrote {
                    res.bad(ty, "announced-size-differs", format!("{} ({}): announced {} bytes, wrote {}", o.class(), scn.spec.class(), ann, wrote));
                }
            }
            Ok(Err(e)) => {
                res.bad(ty, "serialize-failed", format!("serialize of {} failed on a fault-free fragmenting writer: {}", o.class(), e));
                return Ok(());
            }
            Err(p) => {
                res.bad(ty, "serialize-panicked", format!("serialize of {} panicked: {}", o.class(), p));
                return Ok(());
            }
        }
        announced.push(ann);
        boundaries.push(fw.sink.len());
    }
    res.count("fired.short_write", fw.fired.short as u64);
    res.count("fired.interrupted_write", fw.fired.interrupted as u64);
    res.count("io_calls", fw.fired.calls as u64);
    let stream = fw.sink;
    res.log.bytes(&stream);
    let fragmented = fw.fired.short + fw.fired.interrupted > 0;

    // ---- evaluator node B: context built only from the received parameter bytes
    let mut rd = FaultyReader::new(&stream, scn.rscript.clone());
    let parms_b = match catch_res(|| EncryptionParameters::deserialize(&mut rd)) {
        Ok(Ok(p)) => p,
        Ok(Err(e)) => {
            res.bad("EncryptionParameters", "deserialize-failed", format!("{}", e));
            return Ok(());
        }
        Err(p) => {
            res.bad("EncryptionParameters", "deserialize-panicked", p);
            return Ok(());
        }
    };
    if rd.pos != boundaries[1] {
        res.bad("EncryptionParameters", "consumed-size-differs", format!("consumed {} bytes, written {}", rd.pos, boundaries[1]));
        return Ok(());
    }
    if let Err(d) = Obj::Params(a.parms.clone()).same(&Obj::Params(parms_b.clone())) {
        res.bad("EncryptionParameters", "restored-differs", d);
        return Ok(());
    }
    if scn.decoy == 1 {
        let _ = catch_res(|| gen::build_world(&decoy_spec));
        res.count("probe.decoy_context_between_owner_and_peer", 1);
    }
    let expand = scn.spec.expand_chain;
    let built = if scn.decoy == 2 {
        // the peer is another process in reality: at least give it another thread
        std::thread::scope(|sc| sc.spawn(|| catch_res(|| HeContext::new(parms_b, expand, SecurityLevel::None))).join()).unwrap_or_else(|_| Err("peer thread died".into()))
    } else {
        catch_res(|| HeContext::new(parms_b, expand, SecurityLevel::None))
    };
    let ctx_b = match built {
        Ok(c) if c.parameters_set() => c,
        Ok(_) => {
            res.bad("EncryptionParameters", "peer-context-invalid", "context built from the received parameters is not valid".into());
            return Ok(());
        }
        Err(p) => {
            res.bad("EncryptionParameters", "peer-context-panicked", p);
            return Ok(());
        }
    };
    // cross-node side invariants
    {
        let mut ca = a.ctx.key_context_data();
        let mut cb = ctx_b.key_context_data();
        loop {
            match (&ca, &cb) {
                (Some(x), Some(y)) => {
                    if x.parms_id() != y.parms_id() {
                        res.bad("context", "parms-id-differs-across-nodes", format!("level {}: {:?} vs {:?}", x.chain_index(), x.parms_id(), y.parms_id()));
                        break;
                    }
                    let ra: Vec<u64> = x.small_ntt_tables().iter().map(|t| t.root()).collect();
                    let rb: Vec<u64> = y.small_ntt_tables().iter().map(|t| t.root()).collect();
                    if ra != rb {
                        res.bad("context", "ntt-roots-differ-across-nodes", format!("level {}: {:?} vs {:?}", x.chain_index(), ra, rb));
                        break;
                    }
                    let (nx, ny) = (x.next_context_data(), y.next_context_data());
                    ca = nx;
                    cb = ny;
                }
                (None, None) => break,
                _ => {
                    res.bad("context", "chain-length-differs-across-nodes", "modulus chains have different lengths".into());
                    break;
                }
            }
        }
    }

    // ---- B restores every object; position and content are checked after each read
    let mut restored: Vec<Option<Obj>> = vec![None];
    let mut stream_ok = true;
    for (i, o) in stream_objs.iter().enumerate().skip(1) {
        let tag = o.tag();
        let ty = tag.name();
        let start = rd.pos;
        if start != boundaries[i] {
            res.bad("stream", "framing-lost", format!("object {} ({}) should start at byte {}, reader is at {}", i, o.class(), boundaries[i], start));
            stream_ok = false;
            break;
        }
        let got = catch_res(|| Obj::de(&tag, &ctx_b, &mut rd));
        let got = match got {
            Ok(Ok(g)) => g,
            Ok(Err(e)) => {
                res.bad(ty, "deserialize-failed", format!("object {} of the stream ({}; {}): {}", i, o.class(), scn.spec.class(), e));
                stream_ok = false;
                break;
            }
            Err(p) => {
                res.bad(ty, "deserialize-panicked", format!("object {} of the stream ({}; {}): {}", i, o.class(), scn.spec.class(), p));
                stream_ok = false;
                break;
            }
        };
        let consumed = rd.pos - start;
        if consumed != announced[i] {
            res.bad(ty, "consumed-size-differs", format!("{} ({}): announced/wrote {} bytes, deserialize consumed {}", o.class(), scn.spec.class(), announced[i], consumed));
        }
        let expected = catch_res(|| o.expected_restored(&a.ctx)).map_err(|e| format!("expected_restored panicked: {}", e))?;
        if let Err(d) = expected.same(&got) {
            res.bad(ty, "restored-differs", format!("{} ({}) restored in the independently built context: {}", o.class(), scn.spec.class(), d));
        } else {
            // re-encoding of the restored object (in B) equals the encoding of the expected object (in A)
            let mut ea = Vec::new();
            let mut eb = Vec::new();
            let ra = catch_res(|| expected.ser(&a.ctx, &mut ea));
            let rb = catch_res(|| got.ser(&ctx_b, &mut eb));
            if let (Ok(Ok(_)), Ok(Ok(_))) = (&ra, &rb) {
                if ea != eb {
                    res.bad(ty, "re-encoding-differs", format!("{}: re-encoding of the restored object differs from the encoding of the expanded original", o.class()));
                }
            }
        }
        // same-context round trip of this object alone
        let mut single = Vec::new();
        if let Ok(Ok(_)) = catch_res(|| o.ser(&a.ctx, &mut single)) {
            let mut r1 = FaultyReader::new(&single, Script::clean());
            match catch_res(|| Obj::de(&tag, &a.ctx, &mut r1)) {
                Ok(Ok(g)) => {
                    if let Err(d) = expected.same(&g) {
                        res.bad(ty, "restored-differs-same-context", format!("{}: {}", o.class(), d));
                    }
                }
                Ok(Err(e)) => res.bad(ty, "deserialize-failed-same-context", format!("{}: {}", o.class(), e)),
                Err(p) => res.bad(ty, "deserialize-panicked-same-context", format!("{}: {}", o.class(), p)),
            }
        }
        res.objects_checked += 1;
        res.count(&format!("objects.{}", ty), 1);
        let framed = i >= 2;
        let frag_here = fragmented || rd.fired.short + rd.fired.interrupted > 0;
        if framed || frag_here {
            res.distinct.push(util::h64(format!("{}|{}|{}|{}", o.class(), scn.spec.class(), if framed { "k>=2" } else { "k=1" }, if frag_here { "frag" } else { "whole" }).as_bytes()));
        }
        res.distinct_frag.push(util::h64(format!("{}|{:?}|{:?}", ty, scn.wscript.steps, scn.rscript.steps).as_bytes()));
        restored.push(Some(got));
    }
    res.count("fired.short_read", rd.fired.short as u64);
    res.count("fired.interrupted_read", rd.fired.interrupted as u64);
    res.count("io_calls", rd.fired.calls as u64);
    if stream_ok {
        match restored.last() {
            Some(Some(Obj::U64(v))) if *v == SENTINEL => res.count("probe.sentinel_intact", 1),
            _ => res.bad("stream", "sentinel-damaged", "the trailing sentinel was not recovered intact".into()),
        }
        if rd.pos != stream.len() {
            res.bad("stream", "trailing-bytes", format!("{} bytes left unread", stream.len() - rd.pos));
        }
    }
    res.log.u64(res.found.len() as u64);

    // ---- interchangeability: later operations on deserialized / expanded / original objects
    if scn.spec.n <= 1024 {
        interop(scn, &a, &ctx_b, res)?;
    } else {
        res.count("probe.large_ring_deployment", 1);
    }
    Ok(())
}

/// Later operations must not care whether they get the original, the expanded or the
/// deserialized object. The evaluator's results travel back through a fragmenting pipe.
fn interop(scn: &Scn, a: &World, ctx_b: &Arc<HeContext>, res: &mut Res) -> Result<(), String> {
    let mut rng = Prng::new(scn.ops_seed);
    let eval_b = Evaluator::new(ctx_b.clone());
    let send = |o: &Obj, from: &HeContext, to: &HeContext, rng: &mut Prng| -> Result<Obj, String> {
        let mut w = FaultyWriter::new(transport_script(rng));
        catch_res(|| o.ser(from, &mut w)).map_err(|p| format!("panic: {}", p))?.map_err(|e| e.to_string())?;
        let bytes = w.sink;
        let mut r = FaultyReader::new(&bytes, transport_script(rng));
        let tag = o.tag();
        catch_res(|| Obj::de(&tag, to, &mut r)).map_err(|p| format!("panic: {}", p))?.map_err(|e| e.to_string())
    };
    let scheme = gen::scheme_name(scn.spec.scheme);

    // 1. seeded symmetric ciphertext: decrypt(expanded) == decrypt(deserialized), and add at B
    let p1 = a.random_plain(&mut rng);
    let p2 = a.random_plain(&mut rng);
    let c1 = a.encryptor.encrypt_symmetric_new(&p1); // seeded when the polynomial is large enough
    let c2 = a.encryptor.encrypt_new(&p2);
    let c1x = objs::expand_ct(&c1, &a.ctx);
    match send(&Obj::Ct(c1.clone()), &a.ctx, ctx_b, &mut rng) {
        Ok(Obj::Ct(c1b)) => {
            let d_exp = catch_res(|| ser_plain(&a.decryptor.decrypt_new(&c1x)));
            let d_des = catch_res(|| ser_plain(&a.decryptor.decrypt_new(&c1b)));
            if d_exp != d_des {
                res.bad("interop", "decrypt-differs", format!("{}: decrypting the deserialized ciphertext differs from decrypting the locally expanded one", scheme));
            }
            res.count("interop.decrypt", 1);
            // B adds the two received ciphertexts and sends the sum back
            if let Ok(Obj::Ct(c2b)) = send(&Obj::Ct(c2.clone()), &a.ctx, ctx_b, &mut rng) {
                let sum_b = catch_res(|| eval_b.add_new(&c1b, &c2b));
                let sum_a = catch_res(|| a.evaluator.add_new(&c1x, &c2));
                if let (Ok(sb), Ok(sa)) = (sum_b, sum_a) {
                    match send(&Obj::Ct(sb), ctx_b, &a.ctx, &mut rng) {
                        Ok(Obj::Ct(back)) => {
                            if ser_ct(&back, &a.ctx) != ser_ct(&sa, &a.ctx) {
                                res.bad("interop", "add-differs", format!("{}: sum computed by the peer from deserialized operands differs from the local sum of the expanded operands", scheme));
                            }
                            res.count("interop.add_roundtrip", 1);
                        }
                        Ok(_) => {}
                        Err(e) => res.bad("interop", "result-transfer-failed", format!("{}: {}", scheme, e)),
                    }
                }
            }
        }
        Ok(_) => {}
        Err(e) => res.bad("interop", "transfer-failed", format!("{} seeded ciphertext: {}", scheme, e)),
    }

    if a.uses_keyswitching() {
        // 2. relinearization with seeded keys: deserialized at B vs expanded at A
        let rk = a.keygen.create_relin_keys(true);
        let rkx = match Obj::Relin(rk.clone()).expected_restored(&a.ctx) {
            Obj::Relin(k) => k,
            _ => unreachable!(),
        };
        let base = a.encryptor.encrypt_new(&p1);
        if let Ok(sq) = catch_res(|| a.evaluator.square_new(&base)) {
            match (send(&Obj::Relin(rk), &a.ctx, ctx_b, &mut rng), send(&Obj::Ct(sq.clone()), &a.ctx, ctx_b, &mut rng)) {
                (Ok(Obj::Relin(rkb)), Ok(Obj::Ct(sqb))) => {
                    let rb = catch_res(|| eval_b.relinearize_new(&sqb, &rkb));
                    let ra = catch_res(|| a.evaluator.relinearize_new(&sq, &rkx));
                    match (rb, ra) {
                        (Ok(rb), Ok(ra)) => {
                            if ser_ct(&rb, ctx_b) != ser_ct(&ra, &a.ctx) {
                                res.bad("interop", "relinearize-differs", format!("{}: relinearizing with deserialized keys differs from relinearizing with the locally expanded keys", scheme));
                            }
                            res.count("interop.relinearize", 1);
                        }
                        (Err(pb), Ok(_)) => res.bad("interop", "relinearize-panicked-at-peer", format!("{}: {}", scheme, pb)),
                        _ => {}
                    }
                }
                (Err(e), _) | (_, Err(e)) => res.bad("interop", "transfer-failed", format!("{} relin keys / square: {}", scheme, e)),
                _ => {}
            }
        }
        // 3. rotation with seeded Galois keys (only where the default form is handled by apply_galois)
        let elt = 2 * rng.usize_below(scn.spec.n) + 1;
        let gk = a.keygen.create_galois_keys_from_elts(&[elt], true);
        let gkx = match Obj::Galois(gk.clone()).expected_restored(&a.ctx) {
            Obj::Galois(k) => k,
            _ => unreachable!(),
        };
        let ct = a.encryptor.encrypt_new(&p2);
        match (send(&Obj::Galois(gk), &a.ctx, ctx_b, &mut rng), send(&Obj::Ct(ct.clone()), &a.ctx, ctx_b, &mut rng)) {
            (Ok(Obj::Galois(gkb)), Ok(Obj::Ct(ctb))) => {
                let rb = catch_res(|| eval_b.apply_galois_new(&ctb, elt, &gkb));
                let ra = catch_res(|| a.evaluator.apply_galois_new(&ct, elt, &gkx));
                match (rb, ra) {
                    (Ok(rb), Ok(ra)) => {
                        if ser_ct(&rb, ctx_b) != ser_ct(&ra, &a.ctx) {
                            res.bad("interop", "rotate-differs", format!("{}: applying Galois element {} with deserialized keys differs from using the locally expanded keys", scheme, elt));
                        }
                        res.count("interop.rotate", 1);
                    }
                    (Err(pb), Ok(_)) => res.bad("interop", "rotate-panicked-at-peer", format!("{}: {}", scheme, pb)),
                    _ => {}
                }
            }
            (Err(e), _) | (_, Err(e)) => res.bad("interop", "transfer-failed", format!("{} galois keys: {}", scheme, e)),
            _ => {}
        }
    }

    if a.uses_keyswitching() {
        // 3b. seeded key-switching key towards another secret key: apply_keyswitching at the peer
        let other = KeyGenerator::new(a.ctx.clone());
        let ksk = a.keygen.create_keyswitching_key(other.secret_key(), true);
        let kskx = match Obj::KSwitch(ksk.clone()).expected_restored(&a.ctx) {
            Obj::KSwitch(k) => k,
            _ => unreachable!(),
        };
        let ct = a.encryptor.encrypt_new(&p1);
        match (send(&Obj::KSwitch(ksk), &a.ctx, ctx_b, &mut rng), send(&Obj::Ct(ct.clone()), &a.ctx, ctx_b, &mut rng)) {
            (Ok(Obj::KSwitch(kb)), Ok(Obj::Ct(ctb))) => {
                let rb = catch_res(|| eval_b.apply_keyswitching_new(&ctb, &kb));
                let ra = catch_res(|| a.evaluator.apply_keyswitching_new(&ct, &kskx));
                match (rb, ra) {
                    (Ok(rb), Ok(ra)) => {
                        if ser_ct(&rb, ctx_b) != ser_ct(&ra, &a.ctx) {
                            res.bad("interop", "keyswitch-differs", format!("{}: key switching with the deserialized key differs from using the locally expanded key", scheme));
                        }
                        res.count("interop.keyswitch", 1);
                    }
                    (Err(pb), Ok(_)) => res.bad("interop", "keyswitch-panicked-at-peer", format!("{}: {}", scheme, pb)),
                    _ => {}
                }
            }
            (Err(e), _) | (_, Err(e)) => res.bad("interop", "transfer-failed", format!("{} key-switching key: {}", scheme, e)),
            _ => {}
        }
        // 3c. a product computed at the peer from deserialized operands, sent back and compared
        let ca = a.encryptor.encrypt_symmetric_new(&p1);
        let cax = objs::expand_ct(&ca, &a.ctx);
        let cb2 = a.encryptor.encrypt_new(&p2);
        if let (Ok(Obj::Ct(xb)), Ok(Obj::Ct(yb))) = (send(&Obj::Ct(ca), &a.ctx, ctx_b, &mut rng), send(&Obj::Ct(cb2.clone()), &a.ctx, ctx_b, &mut rng)) {
            let pb = catch_res(|| eval_b.multiply_new(&xb, &yb));
            let pa = catch_res(|| a.evaluator.multiply_new(&cax, &cb2));
            if let (Ok(pb), Ok(pa)) = (pb, pa) {
                match send(&Obj::Ct(pb), ctx_b, &a.ctx, &mut rng) {
                    Ok(Obj::Ct(back)) => {
                        if ser_ct(&back, &a.ctx) != ser_ct(&pa, &a.ctx) {
                            res.bad("interop", "multiply-differs", format!("{}: the size-3 product computed by the peer from deserialized operands differs from the local product of the expanded operands", scheme));
                        }
                        res.count("interop.multiply_roundtrip", 1);
                    }
                    Ok(_) => {}
                    Err(e) => res.bad("interop", "result-transfer-failed", format!("{} product: {}", scheme, e)),
                }
            }
        }
    }

    // 4. seeded public key: encryption at B with the deserialized key == encryption at A with the expanded key
    //    under the same entropy stream; A finally decrypts what B encrypted
    let pks = a.keygen.create_public_key(true);
    let pkx = match Obj::Pk(pks.clone()).expected_restored(&a.ctx) {
        Obj::Pk(k) => k,
        _ => unreachable!(),
    };
    match send(&Obj::Pk(pks), &a.ctx, ctx_b, &mut rng) {
        Ok(Obj::Pk(pkb)) => {
            let es = prng::mix(scn.ops_seed, 4, 4);
            let p = p1.clone();
            let cb = gen::with_entropy(es, |_| catch_res(|| Encryptor::new(ctx_b.clone()).set_public_key(pkb).encrypt_new(&p)));
            let ca = gen::with_entropy(es, |_| catch_res(|| Encryptor::new(a.ctx.clone()).set_public_key(pkx).encrypt_new(&p)));
            match (cb, ca) {
                (Ok(cb), Ok(ca)) => {
                    if ser_ct(&cb, ctx_b) != ser_ct(&ca, &a.ctx) {
                        res.bad("interop", "encrypt-differs", format!("{}: encrypting under the deserialized public key differs from encrypting under the locally expanded key (same entropy)", scheme));
                    }
                    // final decryption at the owner
                    if let Ok(Obj::Ct(back)) = send(&Obj::Ct(cb), ctx_b, &a.ctx, &mut rng) {
                        let dec = catch_res(|| a.decryptor.decrypt_new(&back));
                        // only meaningful where the parameters leave noise budget: the owner's own
                        // encryption of the same plaintext must decrypt correctly for this to be asserted
                        let local_ok = catch_res(|| a.decryptor.decrypt_new(&ca)).map(|d| plain_equal_mod_trailing_zeros(&d, &p1)).unwrap_or(false);
                        if let Ok(d) = dec {
                            let ok = if scn.spec.scheme == CKKS || !local_ok { true } else { plain_equal_mod_trailing_zeros(&d, &p1) };
                            if !ok {
                                res.bad("interop", "final-decryption-wrong", format!("{}: the owner decrypts the peer's encryption under the transferred public key to a different plaintext", scheme));
                            }
                            res.count("interop.encrypt_at_peer_decrypt_at_owner", 1);
                        }
                    }
                }
                (Err(pb), Ok(_)) => res.bad("interop", "encrypt-panicked-at-peer", format!("{}: {}", scheme, pb)),
                _ => {}
            }
        }
        Ok(_) => {}
        Err(e) => res.bad("interop", "transfer-failed", format!("{} public key: {}", scheme, e)),
    }
    let _ = BFV;
    Ok(())
}

fn plain_equal_mod_trailing_zeros(a: &Plaintext, b: &Plaintext) -> bool {
    let strip = |p: &Plaintext| {
        let mut v = p.data().clone();
        while v.last() == Some(&0) {
            v.pop();
        }
        v
    };
    strip(a) == strip(b)
}

fn gen_scn(rng: &mut Prng, run_seed: u64, i: usize) -> Option<Scn> {
    let mut opts = SpecOpts::serialization();
    // now and then a realistic ring size: bulk code paths only show with thousands of coefficients
    let big = i % 64 == 17;
    if big {
        opts.ns = vec![2048, 4096, 8192];
        opts.min_primes = 2;
        opts.max_primes = 3;
        opts.qbits = vec![30, 36, 40, 50, 60];
        opts.tbits = vec![17, 20];
        opts.batching = true;
    }
    // deployments do operations: keep at least a little noise room where key switching is used
    if rng.coin() {
        opts.min_primes = 2;
    }
    // now and then as many primes as the library allows (64), or nearly
    let many_primes = i % 150 == 61;
    if many_primes {
        let k = *rng.pick(&[64usize, 64, 63, 33]);
        opts.ns = vec![8, 16];
        opts.min_primes = k;
        opts.max_primes = k;
        opts.qbits = vec![20, 22, 24, 25, 26, 28, 30];
        opts.tbits = vec![8, 13];
    }
    // one deployment in six comes with a decoy context (see Scn::decoy): the primes are then drawn
    // for twice the ring degree, so that they suit both degrees
    let decoy = if !big && !many_primes && rng.chance(1, 6) { rng.range(1, 2) as u64 } else { 0 };
    let spec = if decoy != 0 {
        let mut o2 = opts.clone();
        o2.ns = opts.ns.iter().map(|n| n * 2).collect();
        let mut sp = gen::draw_spec(rng, &o2)?;
        sp.n /= 2;
        sp
    } else {
        gen::draw_spec(rng, &opts)?
    };
    let count = rng.range(1, 6);
    let mut objects = Vec::new();
    const BIG_KINDS: &[&str] = &["plain", "sk", "ct", "ctfull", "ctterms", "pk", "poly", "plain1d", "plain2d", "cipher1d", "params", "vec", "hugevec", "hugeplain"];
    for j in 0..count {
        const MANY_KINDS: &[&str] = &["params", "plain", "ct", "sk", "pk", "parmsid", "vec", "ctfull", "poly"];
        let kind = if many_primes {
            MANY_KINDS[(i + j * 5 + rng.usize_below(MANY_KINDS.len())) % MANY_KINDS.len()]
        } else if big {
            BIG_KINDS[(i + j * 5 + rng.usize_below(BIG_KINDS.len())) % BIG_KINDS.len()]
        } else {
            objs::KINDS[(i * 7 + j * 5 + rng.usize_below(objs::KINDS.len())) % objs::KINDS.len()]
        };
        objects.push((kind.to_string(), rng.next_u64() >> 1));
    }
    Some(Scn {
        spec,
        ent: prng::mix(run_seed, 0xC14, 1),
        objects,
        wscript: transport_script(rng),
        rscript: transport_script(rng),
        ops_seed: prng::mix(run_seed, 0xC14, 2),
        decoy,
    })
}

fn to_violation(scn: &Scn, f: &Found) -> Violation {
    Violation {
        key: f.key.clone(),
        class: f.class.clone(),
        detail: format!("deployment over {} with stream {:?}: {}", scn.spec.class(), scn.objects.iter().map(|(k, _)| k.as_str()).collect::<Vec<_>>(), f.detail),
        replay: json!({"scenario": scn.to_json()}),
    }
}

struct Budget {
    runs: usize,
}
fn budget(tier: Tier) -> Budget {
    match tier {
        Tier::Quick => Budget { runs: driver::scale(6000) },
        Tier::Thorough => Budget { runs: driver::scale(1200000) },
    }
}

/// A deployment of `app::rns_plain` wrapper objects (one component per plaintext modulus).
fn rnsp_run(i: usize, run_seed: u64) -> RunOut {
    let mut out = RunOut::default();
    let mut rng = Prng::new(run_seed).fork("rnsp");
    let Some(specs) = (0..8).find_map(|_| crate::rnsp::draw_specs(&mut rng)) else {
        out.degenerate = true;
        return out;
    };
    let objects: Vec<(String, u64)> = (0..rng.range(1, 5)).map(|j| (crate::rnsp::KINDS[(i + j + rng.usize_below(7)) % crate::rnsp::KINDS.len()].to_string(), rng.next_u64() >> 1)).collect();
    let (ws, rs) = (transport_script(&mut rng), transport_script(&mut rng));
    let ent = prng::mix(run_seed, 0xC14, 7);
    let scn = json!({"rnsp": true, "specs": specs.iter().map(|s| s.to_json()).collect::<Vec<_>>(), "entropy_seed": ent,
        "objects": objects.iter().map(|(k, s)| json!([k, s])).collect::<Vec<_>>(), "write_script": ws.to_json(), "read_script": rs.to_json()});
    out.count("evaluations", 1);
    match crate::rnsp::deployment(&specs, ent, &objects, &ws, &rs) {
        Ok((found, checked)) => {
            out.count("objects_checked", checked);
            out.count("rnsp.deployments", 1);
            out.count("rnsp.objects_checked", checked);
            for (k, _) in &objects {
                out.distinct.push(util::h64(format!("rnsp|{}|{}", k, specs[0].class()).as_bytes()));
            }
            for (key, class, detail) in found {
                out.violations.push(Violation { key, class, detail: format!("rns_plain deployment over {} x{} moduli: {}", specs[0].class(), specs.len(), detail), replay: json!({"scenario": scn}) });
            }
        }
        Err(e) => {
            out.count(&format!("skipped.rnsp_{}", e.split(':').next().unwrap_or("?").replace(' ', "_")), 1);
            out.degenerate = true;
        }
    }
    let mut lh = LogHash::new();
    lh.str(&scn.to_string());
    lh.u64(out.violations.len() as u64);
    out.log_hash = lh.finish();
    out
}

fn rnsp_rerun(scn: &Value) -> Option<Vec<(String, String, String)>> {
    let specs = scn["specs"].as_array()?.iter().map(ParamSpec::from_json).collect::<Option<Vec<_>>>()?;
    let objects = scn["objects"].as_array()?.iter().map(|x| Some((x[0].as_str()?.to_string(), x[1].as_u64()?))).collect::<Option<Vec<_>>>()?;
    let ws = Script::from_json(&scn["write_script"])?;
    let rs = Script::from_json(&scn["read_script"])?;
    crate::rnsp::deployment(&specs, scn["entropy_seed"].as_u64()?, &objects, &ws, &rs).ok().map(|x| x.0)
}

fn one_run(i: usize, run_seed: u64) -> RunOut {
    if i % 16 == 7 {
        return rnsp_run(i, run_seed);
    }
    let mut out = RunOut::default();
    let root = Prng::new(run_seed);
    let mut rng = root.fork("scenario");
    let Some(scn) = (0..8).find_map(|_| gen_scn(&mut rng, run_seed, i)) else {
        out.degenerate = true;
        return out;
    };
    let r = run_scenario(&scn);
    for (k, v) in &r.counters {
        out.count(k, *v);
    }
    out.count("evaluations", 1);
    out.count("objects_checked", r.objects_checked);
    out.distinct = r.distinct.clone();
    for h in &r.distinct_frag {
        out.distinct_in("type_x_fragmentation_pattern", *h);
    }
    out.degenerate = r.degenerate;
    for f in &r.found {
        out.violations.push(to_violation(&scn, f));
    }
    out.log_hash = r.log.finish();
    if i % 300 == 0 || i < 2 {
        out.sample = Some(json!({"scenario": scn.to_json(), "objects_checked": r.objects_checked}));
    }
    out
}

pub fn run(tier: Tier, seed: u64) -> i32 {
    let b = budget(tier);
    let batch: Batch = driver::run_batch(PROP, seed, b.runs, 6, |i, s| one_run(i, s));
    let mut extra = serde_json::Map::new();
    extra.insert("objects_checked".into(), json!(batch.counters.get("objects_checked").copied().unwrap_or(0)));
    extra.insert("simulated_time".into(), json!({"unit": "logical I/O calls on the simulated pipes (the code under test reads no clock)", "events": batch.counters.get("io_calls").copied().unwrap_or(0)}));
    extra.insert("what_is_simulated".into(), json!("the transport (fragmentation on both sides, multi-object framing on one stream) and the independent construction of the peer's context; the variety of objects and parameters is ordinary seeded generation"));
    let rep = Report {
        prop: PROP.into(),
        tier,
        seed,
        level: "exploration",
        rule: "seeded deployments: parameter set (3 schemes, N in {8,16,32}, 1-4 primes of 8..60 bits, batching or arbitrary t) -> owner world; a stream of parameters + 1..6 objects (24 kinds incl. seeded/expanded, sizes 2..5, all levels, both representations, BGV correction factors, key sets with missing entries, empty containers, term subsets) + sentinel written through a fragmenting writer and restored by a peer whose context is built from the received bytes through a fragmenting reader; then interchangeability operations (decrypt, add, relinearize, rotate, encrypt) with results streamed back. evaluations = deployments. distinct_nontrivial = distinct (object class, parameter class, stream position k>=2 or fragmented delivery) tuples".into(),
        assumptions: vec![
            "field-wise equality is judged with god's-eye access to both nodes".into(),
            "the expected restored form uses the library's own expand_seed and NTT (those are other properties)".into(),
        ],
        components: json!({"real": ["heathcliff serialize.rs, text.rs, key.rs, app/matmul/cipher{1,2,3}d.rs, HeContext construction on both nodes, Evaluator/Encryptor/Decryptor for the interchangeability operations"],
                            "stub": ["byte pipes between the nodes (fragmenting writer/reader)", "OS entropy (seeded provider)"]}),
        extra,
    };
    driver::finish(rep, &batch, &minimise, &crate::replay_fresh)
}

fn reproduces(scn: &Scn, key: &str) -> Option<Found> {
    run_scenario(scn).found.into_iter().find(|f| f.key == key)
}

/// Shrink: drop stream objects, drop fragmentation, shrink parameters.
fn minimise(v: &Violation) -> Violation {
    if v.replay["scenario"]["rnsp"].as_bool() == Some(true) {
        return v.clone();
    }
    let Some(mut scn) = Scn::from_json(&v.replay["scenario"]) else { return v.clone() };
    let Some(mut best) = reproduces(&scn, &v.key) else { return v.clone() };
    let mut progress = true;
    while progress {
        progress = false;
        for i in (0..scn.objects.len()).rev() {
            let mut c = scn.clone();
            c.objects.remove(i);
            if let Some(f) = reproduces(&c, &v.key) {
                scn = c;
                best = f;
                progress = true;
                break;
            }
        }
    }
    for which in 0..2 {
        let mut c = scn.clone();
        if which == 0 {
            c.wscript = Script::clean();
        } else {
            c.rscript = Script::clean();
        }
        if let Some(f) = reproduces(&c, &v.key) {
            scn = c;
            best = f;
        }
    }
    // fewer primes
    while scn.spec.q.len() > 1 {
        let mut c = scn.clone();
        c.spec.q.pop();
        match reproduces(&c, &v.key) {
            Some(f) => {
                scn = c;
                best = f;
            }
            None => break,
        }
    }
    to_violation(&scn, &best)
}

pub fn replay(doc: &Value) -> i32 {
    if doc["replay"]["scenario"]["rnsp"].as_bool() == Some(true) {
        let Some(found) = rnsp_rerun(&doc["replay"]["scenario"]) else {
            eprintln!("replay diverged: rns_plain scenario no longer builds");
            return 2;
        };
        let want = doc["key"].as_str().unwrap_or("");
        return match found.iter().find(|f| f.0 == want).or(found.first()) {
            Some((k, c, d)) => {
                println!("VIOLATION property={} replay={}", PROP, doc["__path"].as_str().unwrap_or("?"));
                println!("  key={} class={} {}", k, c, d);
                1
            }
            None => {
                println!("{} replay: property held on this rns_plain deployment", PROP);
                0
            }
        };
    }
    let Some(scn) = Scn::from_json(&doc["replay"]["scenario"]) else {
        eprintln!("replay file malformed");
        return 2;
    };
    let r = run_scenario(&scn);
    if r.degenerate && r.found.is_empty() {
        eprintln!("replay diverged: scenario no longer builds");
        return 2;
    }
    let want = doc["key"].as_str().unwrap_or("");
    match r.found.iter().find(|f| f.key == want).or(r.found.first()) {
        Some(f) => {
            println!("VIOLATION property={} replay={}", PROP, doc["__path"].as_str().unwrap_or("?"));
            println!("  key={} class={} {}", f.key, f.class, f.detail);
            1
        }
        None => {
            println!("{} replay: property held on this deployment ({} objects)", PROP, r.objects_checked);
            0
        }
    }
}
