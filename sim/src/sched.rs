//! Thread world: a baton scheduler over real OS threads. Exactly one simulated thread runs at a
//! time; all others are parked inside a `verif_hooks::sched` call. The scheduler owns a model of
//! every RwLock it has seen (so that a real `read()`/`write()` never blocks), the strategy that
//! picks who runs next, the recorded schedule, and the invariant probe evaluated after every step.

use crate::prng::Prng;
use crate::util::{self, AbortRun, Caught};
use heathcliff::verif_hooks::{Hooks, LockKind, SchedEvent};
use serde_json::{json, Value};
use std::sync::atomic::{AtomicU64, Ordering};
use std::sync::{Arc, Condvar, Mutex};
use std::time::{Duration, Instant};

#[derive(Clone, Copy, Debug, PartialEq, Eq)]
pub enum Policy {
    /// Readers may enter while a writer is waiting.
    ReaderPref,
    /// A waiting writer blocks new readers (what std's futex RwLock does on Linux).
    WriterPref,
}

#[derive(Clone, Debug)]
pub enum Strategy {
    /// Uniform choice among enabled threads at every point.
    Random,
    /// Keep running the current thread with probability stay/16, otherwise uniform.
    Sticky { stay: u64 },
    /// PCT-style: fixed random priorities, `changes` priority-lowering points at the given steps.
    Pct { prio: Vec<u64>, change_at: Vec<usize> },
    /// Hold `victim` at its `nth` Enter(Write) until no other thread is enabled.
    StallWriter { victim: usize, nth: usize },
    /// Supplementary net, not the deciding search: no baton at all — the threads run truly in parallel
    /// and the hooks only record events and evaluate the probe. Reaches races inside synchronisation
    /// the lock wrapper does not see (a lock or atomic added elsewhere). Not replayable.
    FreeRun,
    /// Replay: forced choices. strict = diverging is an error; otherwise fall back to
    /// "continue the current thread, else lowest enabled id".
    Forced { choices: Vec<u8>, strict: bool },
}

#[derive(Clone, Copy, Debug, PartialEq, Eq)]
enum TStatus {
    NotArrived,
    Ready,
    Waiting { lock: usize, write: bool },
    Finished,
}

#[derive(Default, Clone)]
struct LockModel {
    readers: Vec<usize>,
    writer: Option<usize>,
}

#[derive(Clone, Debug)]
pub struct TraceEv {
    pub tid: usize,
    pub what: &'static str,
    pub lock: usize,
    /// source file of the lock call site ("" for start/finish)
    pub site: &'static str,
    pub line: u32,
}

fn short_file(f: &'static str) -> &'static str {
    f.rsplit('/').next().unwrap_or(f)
}

pub struct Shared {
    m: Mutex<State>,
    cvs: Vec<Condvar>,
    main_cv: Condvar,
}

type Probe = Box<dyn FnMut(&[TraceEv]) -> Result<(), String> + Send>;

struct State {
    n: usize,
    status: Vec<TStatus>,
    current: Option<usize>,
    lock_addr: Vec<usize>,
    locks: Vec<LockModel>,
    policy: Policy,
    strategy: Strategy,
    rng: Prng,
    trace: Vec<TraceEv>,
    choices: Vec<u8>,
    enabled_counts: Vec<u8>,
    steps: usize,
    step_cap: usize,
    abort: bool,
    violation: Option<(String, String)>,
    diverged: bool,
    probe: Option<Probe>,
    write_enters: Vec<usize>,
    finished: usize,
    last_progress: Instant,
    held_victim: bool,
    /// threads presumed blocked outside the lock model (running, but not at a scheduling point)
    detached: Vec<bool>,
    nondeterministic: bool,
    inconclusive: bool,
    free_run: bool,
    free_go: bool,
}

pub struct SimHooks {
    shared: Arc<Shared>,
    tid: usize,
    ent_seed: u64,
    ent_counter: AtomicU64,
}

impl Hooks for SimHooks {
    fn sched(&self, ev: SchedEvent) {
        self.shared.point(self.tid, Some(ev));
    }
    fn entropy(&self) -> Option<[u8; 64]> {
        let n = self.ent_counter.fetch_add(1, Ordering::SeqCst);
        Some(crate::gen::EntropyHook::seed_for(self.ent_seed, n))
    }
}

/// Result of one simulated multi-threaded execution.
pub struct SimResult<R> {
    pub outcomes: Vec<Caught<R>>,
    pub trace: Vec<TraceEv>,
    pub choices: Vec<u8>,
    /// number of enabled threads at each decision (for reach statistics)
    pub enabled_counts: Vec<u8>,
    pub violation: Option<(String, String)>,
    pub diverged: bool,
    pub lock_count: usize,
    pub entropy_draws: Vec<u64>,
    /// the baton had to be taken away from a thread blocked outside the model: the run is valid but
    /// not exactly replayable
    pub nondeterministic: bool,
    /// the execution was given up unjudged (stall after a baton hand-over)
    pub inconclusive: bool,
}

impl State {
    fn lock_id(&mut self, addr: usize) -> usize {
        if let Some(i) = self.lock_addr.iter().position(|&a| a == addr) {
            i
        } else {
            self.lock_addr.push(addr);
            self.locks.push(LockModel::default());
            self.lock_addr.len() - 1
        }
    }

    fn grantable(&self, tid: usize, lock: usize, write: bool) -> bool {
        let l = &self.locks[lock];
        if write {
            l.writer.is_none() && l.readers.is_empty()
        } else {
            if l.writer.is_some() {
                return false;
            }
            if self.policy == Policy::WriterPref {
                // a waiting writer blocks new readers
                for (t, s) in self.status.iter().enumerate() {
                    if t != tid {
                        if let TStatus::Waiting { lock: l2, write: true } = s {
                            if *l2 == lock {
                                return false;
                            }
                        }
                    }
                }
            }
            true
        }
    }

    fn enabled(&self) -> Vec<usize> {
        (0..self.n)
            .filter(|&t| !self.detached[t])
            .filter(|&t| match self.status[t] {
                TStatus::Ready => true,
                TStatus::Waiting { lock, write } => self.grantable(t, lock, write),
                _ => false,
            })
            .collect()
    }

    fn fail(&mut self, class: &str, detail: String) {
        if self.violation.is_none() {
            self.violation = Some((class.to_string(), detail));
        }
        self.abort = true;
    }

    /// Pick the next thread to run (a decision point). Returns None when nothing is enabled.
    fn choose(&mut self, from: Option<usize>) -> Option<usize> {
        let en = self.enabled();
        if en.is_empty() {
            return None;
        }
        let pick = match &mut self.strategy {
            Strategy::FreeRun => en[0],
            Strategy::Random => en[self.rng.usize_below(en.len())],
            Strategy::Sticky { stay } => {
                let stay = *stay;
                match from {
                    Some(f) if en.contains(&f) && self.rng.below(16) < stay => f,
                    _ => en[self.rng.usize_below(en.len())],
                }
            }
            Strategy::Pct { prio, change_at } => {
                if change_at.contains(&self.steps) {
                    if let Some(f) = from {
                        let lowest = prio.iter().copied().min().unwrap_or(0);
                        prio[f] = lowest.saturating_sub(1);
                    }
                }
                *en.iter().max_by_key(|&&t| prio[t]).unwrap()
            }
            Strategy::StallWriter { victim, nth } => {
                let v = *victim;
                let hold = matches!(self.status[v], TStatus::Waiting { write: true, .. }) && self.write_enters[v] == *nth + 1;
                let others: Vec<usize> = en.iter().copied().filter(|&t| t != v).collect();
                if hold && !others.is_empty() {
                    self.held_victim = true;
                    others[self.rng.usize_below(others.len())]
                } else {
                    en[self.rng.usize_below(en.len())]
                }
            }
            Strategy::Forced { choices, strict } => {
                let idx = self.choices.len();
                let fallback = |from: Option<usize>| match from {
                    Some(f) if en.contains(&f) => f,
                    _ => en[0],
                };
                if idx < choices.len() {
                    let c = choices[idx] as usize;
                    if en.contains(&c) {
                        c
                    } else if *strict {
                        self.diverged = true;
                        self.abort = true;
                        return None;
                    } else {
                        fallback(from)
                    }
                } else if *strict {
                    self.diverged = true;
                    self.abort = true;
                    return None;
                } else {
                    fallback(from)
                }
            }
        };
        self.choices.push(pick as u8);
        self.enabled_counts.push(en.len() as u8);
        if let TStatus::Waiting { lock, write } = self.status[pick] {
            if write {
                self.locks[lock].writer = Some(pick);
            } else {
                self.locks[lock].readers.push(pick);
            }
            self.status[pick] = TStatus::Ready;
        }
        Some(pick)
    }
}

impl Shared {
    /// A scheduling point reached by thread `tid` (None = thread start).
    fn point(&self, tid: usize, ev: Option<SchedEvent>) {
        let mut st = self.m.lock().unwrap();
        if st.abort {
            drop(st);
            if matches!(ev, Some(SchedEvent::Enter(_))) && !std::thread::panicking() {
                std::panic::resume_unwind(Box::new(AbortRun));
            }
            return;
        }
        if st.free_run {
            match ev {
                None => {
                    st.status[tid] = TStatus::Ready;
                    self.main_cv.notify_all();
                    while !st.free_go && !st.abort {
                        st = self.cvs[tid].wait(st).unwrap();
                    }
                }
                Some(e) => {
                    let (what, ls): (&'static str, heathcliff::verif_hooks::LockSite) = match e {
                        SchedEvent::Enter(l) => (if l.kind == LockKind::Write { "enter-w" } else { "enter-r" }, l),
                        SchedEvent::Acquired(l) => (if l.kind == LockKind::Write { "acq-w" } else { "acq-r" }, l),
                        SchedEvent::TryEnter(l) => (if l.kind == LockKind::Write { "try-w" } else { "try-r" }, l),
                        SchedEvent::TryResult(l, ok) => (if ok { "try-ok" } else { "try-busy" }, l),
                        SchedEvent::Released(l) => (if l.kind == LockKind::Write { "rel-w" } else { "rel-r" }, l),
                    };
                    let id = st.lock_id(ls.lock);
                    st.trace.push(TraceEv { tid, what, lock: id, site: short_file(ls.file), line: ls.line });
                    st.steps += 1;
                    st.last_progress = Instant::now();
                    if let Some(mut p) = st.probe.take() {
                        let r = p(&st.trace);
                        st.probe = Some(p);
                        if let Err(d) = r {
                            st.fail("invariant", d);
                            self.main_cv.notify_all();
                        }
                    }
                }
            }
            return;
        }
        let mut is_enter = false;
        match ev {
            None => {
                st.status[tid] = TStatus::Ready;
                st.trace.push(TraceEv { tid, what: "start", lock: 0, site: "", line: 0 });
                // the first decision is taken by the main thread once everybody has arrived
                self.main_cv.notify_all();
                st = self.wait_turn(st, tid);
                let aborted = st.abort;
                drop(st);
                if aborted {
                    std::panic::resume_unwind(Box::new(AbortRun));
                }
                return;
            }
            Some(SchedEvent::Enter(ls)) => {
                is_enter = true;
                let id = st.lock_id(ls.lock);
                let write = ls.kind == LockKind::Write;
                st.status[tid] = TStatus::Waiting { lock: id, write };
                if write {
                    st.write_enters[tid] += 1;
                }
                st.trace.push(TraceEv { tid, what: if write { "enter-w" } else { "enter-r" }, lock: id, site: short_file(ls.file), line: ls.line });
            }
            Some(SchedEvent::Acquired(ls)) => {
                let id = st.lock_id(ls.lock);
                st.trace.push(TraceEv { tid, what: if ls.kind == LockKind::Write { "acq-w" } else { "acq-r" }, lock: id, site: short_file(ls.file), line: ls.line });
            }
            Some(SchedEvent::TryEnter(ls)) => {
                let id = st.lock_id(ls.lock);
                st.trace.push(TraceEv { tid, what: if ls.kind == LockKind::Write { "try-w" } else { "try-r" }, lock: id, site: short_file(ls.file), line: ls.line });
            }
            Some(SchedEvent::TryResult(ls, got)) => {
                let id = st.lock_id(ls.lock);
                let write = ls.kind == LockKind::Write;
                if got {
                    // the real lock was free for this access; the model must agree
                    if write {
                        st.locks[id].writer = Some(tid);
                    } else {
                        st.locks[id].readers.push(tid);
                    }
                }
                let what = match (write, got) {
                    (true, true) => "try-w-ok",
                    (true, false) => "try-w-busy",
                    (false, true) => "try-r-ok",
                    (false, false) => "try-r-busy",
                };
                st.trace.push(TraceEv { tid, what, lock: id, site: short_file(ls.file), line: ls.line });
            }
            Some(SchedEvent::Released(ls)) => {
                let id = st.lock_id(ls.lock);
                if ls.kind == LockKind::Write {
                    if st.locks[id].writer == Some(tid) {
                        st.locks[id].writer = None;
                    }
                } else if let Some(p) = st.locks[id].readers.iter().position(|&t| t == tid) {
                    st.locks[id].readers.remove(p);
                }
                st.trace.push(TraceEv { tid, what: if ls.kind == LockKind::Write { "rel-w" } else { "rel-r" }, lock: id, site: short_file(ls.file), line: ls.line });
            }
        }
        st.steps += 1;
        st.last_progress = Instant::now();
        if st.detached[tid] {
            // this thread had been presumed blocked outside the model and somebody else was given the
            // baton; it has now reached a scheduling point: park it again without taking a decision
            st.detached[tid] = false;
            if st.current.is_none() && !st.abort {
                if let Some(next) = st.choose(None) {
                    st.current = Some(next);
                    if next != tid {
                        self.cvs[next].notify_one();
                    }
                }
            }
            st = self.wait_turn(st, tid);
            let aborted = st.abort;
            drop(st);
            if aborted && is_enter && !std::thread::panicking() {
                std::panic::resume_unwind(Box::new(AbortRun));
            }
            return;
        }
        if st.steps > st.step_cap {
            let cap = st.step_cap;
            st.fail("no-progress", format!("more than {} scheduling points without completing (bounded-progress budget exceeded)", cap));
        }
        // invariant probe: every other simulated thread is parked right now
        if !st.abort {
            if let Some(mut p) = st.probe.take() {
                let r = p(&st.trace);
                st.probe = Some(p);
                if let Err(d) = r {
                    st.fail("invariant", d);
                }
            }
        }
        if !st.abort {
            match st.choose(Some(tid)) {
                Some(next) => {
                    st.current = Some(next);
                    if next != tid {
                        self.cvs[next].notify_one();
                    }
                }
                None => {
                    if st.detached.iter().any(|d| *d) {
                        // somebody is still running outside the model; it decides when it reaches a point
                        st.current = None;
                    } else if !st.diverged {
                        let desc = describe_blocked(&st);
                        st.fail("deadlock", format!("no simulated thread can proceed: {}", desc));
                    }
                }
            }
        }
        if st.abort {
            self.wake_all();
            self.main_cv.notify_all();
            drop(st);
            if is_enter && !std::thread::panicking() {
                std::panic::resume_unwind(Box::new(AbortRun));
            }
            return;
        }
        st = self.wait_turn(st, tid);
        let aborted = st.abort;
        drop(st);
        if aborted && is_enter && !std::thread::panicking() {
            std::panic::resume_unwind(Box::new(AbortRun));
        }
    }

    fn wait_turn<'a>(&'a self, mut st: std::sync::MutexGuard<'a, State>, tid: usize) -> std::sync::MutexGuard<'a, State> {
        while st.current != Some(tid) && !st.abort {
            st = self.cvs[tid].wait(st).unwrap();
        }
        st
    }

    fn wake_all(&self) {
        for cv in &self.cvs {
            cv.notify_all();
        }
    }

    fn finish_thread(&self, tid: usize) {
        let mut st = self.m.lock().unwrap();
        st.status[tid] = TStatus::Finished;
        st.finished += 1;
        st.last_progress = Instant::now();
        if !st.abort {
            // after an abort the threads free-run; their order is not part of the simulated history
            st.trace.push(TraceEv { tid, what: "finish", lock: 0, site: "", line: 0 });
        }
        st.last_progress = Instant::now();
        // a finished thread holds nothing (guards are dropped by now); be defensive anyway
        for l in st.locks.iter_mut() {
            if l.writer == Some(tid) {
                l.writer = None;
            }
            l.readers.retain(|&t| t != tid);
        }
        if st.free_run {
            self.main_cv.notify_all();
            return;
        }
        let was_detached = st.detached[tid];
        st.detached[tid] = false;
        if was_detached && st.current.is_some() && st.current != Some(tid) {
            // somebody else holds the baton
            self.main_cv.notify_all();
            return;
        }
        if !st.abort && st.finished < st.n {
            match st.choose(None) {
                Some(next) => {
                    st.current = Some(next);
                    self.cvs[next].notify_one();
                }
                None => {
                    if st.detached.iter().any(|d| *d) {
                        st.current = None;
                    } else {
                        if !st.diverged {
                            let desc = describe_blocked(&st);
                            st.fail("deadlock", format!("no simulated thread can proceed: {}", desc));
                        }
                        self.wake_all();
                    }
                }
            }
        } else {
            st.current = None;
        }
        self.main_cv.notify_all();
    }
}

fn describe_blocked(st: &State) -> String {
    let mut parts = Vec::new();
    for t in 0..st.n {
        match st.status[t] {
            TStatus::Waiting { lock, write } => {
                let l = &st.locks[lock];
                parts.push(format!(
                    "t{} waits for {} on lock{} (held: writer={:?} readers={:?})",
                    t,
                    if write { "write" } else { "read" },
                    lock,
                    l.writer,
                    l.readers
                ));
            }
            TStatus::Finished => {}
            s => parts.push(format!("t{} {:?}", t, s)),
        }
    }
    parts.join("; ")
}

/// Fallback: after this long without a scheduling point the baton holder is presumed blocked
/// outside the model even if its OS state cannot be read.
const DETACH_SECS: u64 = 3;

/// OS thread id of the calling thread (Linux), 0 if unknown.
fn os_tid() -> u64 {
    std::fs::read_link("/proc/thread-self").ok().and_then(|p| p.file_name().and_then(|f| f.to_str().and_then(|s| s.parse().ok()))).unwrap_or(0)
}

/// Is the OS thread sleeping / blocked (state S or D)? None if unknown.
fn os_blocked(tid: u64) -> Option<bool> {
    if tid == 0 {
        return None;
    }
    let stat = std::fs::read_to_string(format!("/proc/self/task/{}/stat", tid)).ok()?;
    let after = stat.rsplit(')').next()?;
    let state = after.trim_start().chars().next()?;
    Some(state == 'S' || state == 'D')
}

pub struct SimConfig {
    pub policy: Policy,
    pub strategy: Strategy,
    pub sched_seed: u64,
    pub step_cap: usize,
    /// per-thread entropy seeds
    pub ent_seeds: Vec<u64>,
    pub stall_secs: u64,
}

/// Run `bodies` as simulated threads under the scheduler. `probe` is evaluated after every step
/// with all other threads parked.
pub fn simulate<R: Send + 'static>(
    cfg: SimConfig,
    bodies: Vec<Box<dyn FnOnce() -> R + Send>>,
    probe: Option<Probe>,
) -> SimResult<R> {
    let n = bodies.len();
    let shared = Arc::new(Shared {
        m: Mutex::new(State {
            n,
            status: vec![TStatus::NotArrived; n],
            current: None,
            lock_addr: Vec::new(),
            locks: Vec::new(),
            policy: cfg.policy,
            strategy: cfg.strategy.clone(),
            rng: Prng::new(cfg.sched_seed),
            trace: Vec::new(),
            choices: Vec::new(),
            enabled_counts: Vec::new(),
            steps: 0,
            step_cap: cfg.step_cap,
            abort: false,
            violation: None,
            diverged: false,
            probe,
            write_enters: vec![0; n],
            finished: 0,
            last_progress: Instant::now(),
            held_victim: false,
            detached: vec![false; n],
            nondeterministic: false,
            inconclusive: false,
            free_run: false,
            free_go: false,
        }),
        cvs: (0..n).map(|_| Condvar::new()).collect(),
        main_cv: Condvar::new(),
    });
    if matches!(cfg.strategy, Strategy::FreeRun) {
        shared.m.lock().unwrap().free_run = true;
    }
    let results: Arc<Mutex<Vec<Option<Caught<R>>>>> = Arc::new(Mutex::new((0..n).map(|_| None).collect()));
    let draws: Arc<Mutex<Vec<u64>>> = Arc::new(Mutex::new(vec![0; n]));
    let tids: Arc<Vec<AtomicU64>> = Arc::new((0..n).map(|_| AtomicU64::new(0)).collect());
    let mut handles = Vec::new();
    for (tid, body) in bodies.into_iter().enumerate() {
        let sh = shared.clone();
        let res = results.clone();
        let dr = draws.clone();
        let ent_seed = cfg.ent_seeds[tid];
        let tids2 = tids.clone();
        handles.push(std::thread::spawn(move || {
            tids2[tid].store(os_tid(), Ordering::SeqCst);
            let hooks = Arc::new(SimHooks { shared: sh.clone(), tid, ent_seed, ent_counter: AtomicU64::new(0) });
            crate::gen::set_hooks(Some(hooks.clone()));
            let out = util::catch(|| {
                sh.point(tid, None);
                body()
            });
            crate::gen::set_hooks(None);
            dr.lock().unwrap()[tid] = hooks.ent_counter.load(Ordering::SeqCst);
            res.lock().unwrap()[tid] = Some(out);
            sh.finish_thread(tid);
        }));
    }
    // main: wait for all arrivals, take the first decision, then wait for completion / stall
    {
        let mut st = shared.m.lock().unwrap();
        while st.status.iter().any(|s| *s == TStatus::NotArrived) {
            let (g, _) = shared.main_cv.wait_timeout(st, Duration::from_millis(200)).unwrap();
            st = g;
        }
        // canonical order of "start" events regardless of real arrival order
        st.trace.sort_by_key(|e| e.tid);
        if st.free_run {
            st.free_go = true;
            st.nondeterministic = true;
            shared.wake_all();
            st.last_progress = Instant::now();
            loop {
                if st.finished == n {
                    break;
                }
                let (g, _) = shared.main_cv.wait_timeout(st, Duration::from_millis(50)).unwrap();
                st = g;
                if st.finished < n && st.last_progress.elapsed() > Duration::from_secs(cfg.stall_secs) {
                    st.fail("stall", format!("free-running threads made no progress for {} s (deadlock?)", cfg.stall_secs));
                    shared.wake_all();
                    let deadline = Instant::now() + Duration::from_secs(5);
                    while st.finished < n && Instant::now() < deadline {
                        let (g, _) = shared.main_cv.wait_timeout(st, Duration::from_millis(100)).unwrap();
                        st = g;
                    }
                    break;
                }
            }
        } else {
        match st.choose(None) {
            Some(first) => {
                st.current = Some(first);
                shared.cvs[first].notify_one();
            }
            None => {
                st.abort = true;
                shared.wake_all();
            }
        }
        st.last_progress = Instant::now();
        let mut blocked_seen: Option<(usize, usize)> = None;
        let mut blocked_samples = 0u32;
        loop {
            if st.finished == n {
                break;
            }
            let (g, _) = shared.main_cv.wait_timeout(st, Duration::from_millis(10)).unwrap();
            st = g;
            if st.finished == n {
                break;
            }
            // the baton holder sleeping in the kernel (twice in a row, no scheduling point in between)
            // means it is blocked on something the model does not know about
            let mut presumed_blocked = st.last_progress.elapsed() > Duration::from_secs(DETACH_SECS);
            if !presumed_blocked && st.last_progress.elapsed() > Duration::from_millis(20) {
                if let Some(cur) = st.current {
                    if os_blocked(tids[cur].load(Ordering::SeqCst)) == Some(true) {
                        if blocked_seen == Some((cur, st.steps)) {
                            // asleep at several consecutive samples, no scheduling point in between
                            blocked_samples += 1;
                            if blocked_samples >= 5 {
                                presumed_blocked = true;
                            }
                        } else {
                            blocked_seen = Some((cur, st.steps));
                            blocked_samples = 0;
                        }
                    } else {
                        blocked_seen = None;
                        blocked_samples = 0;
                    }
                }
            }
            if presumed_blocked && !st.abort {
                // the baton holder has not reached a scheduling point for a while: it may be blocked on
                // something the model does not know (an uninstrumented lock held by a parked thread).
                // Hand the baton to another enabled thread instead of raising an alarm.
                if let Some(stuck) = st.current {
                    if !st.detached[stuck] {
                        st.detached[stuck] = true;
                        if let Some(next) = st.choose(None) {
                            st.nondeterministic = true;
                            st.current = Some(next);
                            st.last_progress = Instant::now();
                            shared.cvs[next].notify_one();
                            continue;
                        }
                        // nobody else can run: keep waiting for the stuck thread
                        st.detached[stuck] = false;
                    }
                }
            }
            if st.last_progress.elapsed() > Duration::from_secs(cfg.stall_secs) {
                let running = st.current;
                if st.nondeterministic {
                    // the baton had been handed over because its holder looked blocked in the kernel (on
                    // a loaded machine a thread that merely waits for a page or for the allocator looks
                    // the same): from then on two threads may run at once and the bookkeeping of who
                    // holds the baton is best effort. A stall in that mode says nothing about the code
                    // under test (a real deadlock on locks the model knows is reported by the model, one
                    // on other locks by the free-running executions): give the execution up, unjudged.
                    st.diverged = true;
                    st.abort = true;
                    st.inconclusive = true;
                } else {
                    st.fail(
                        "stall",
                        format!("simulated thread {:?} did not reach its next scheduling point within {} s (blocked outside the lock model?)", running, cfg.stall_secs),
                    );
                }
                shared.wake_all();
                // give the others a moment to unwind, then give up on whoever is stuck
                let deadline = Instant::now() + Duration::from_secs(5);
                while st.finished < n && Instant::now() < deadline {
                    let (g, _) = shared.main_cv.wait_timeout(st, Duration::from_millis(100)).unwrap();
                    st = g;
                }
                break;
            }
        }
        }
    }
    let all_done = shared.m.lock().unwrap().finished == n;
    if all_done {
        for h in handles {
            let _ = h.join();
        }
    } // else: leak the stuck thread(s); the run is already a violation
    let entropy_draws = draws.lock().unwrap().clone();
    let mut st = shared.m.lock().unwrap();
    let outcomes: Vec<Caught<R>> = {
        let mut r = results.lock().unwrap();
        (0..n).map(|i| r[i].take().unwrap_or(Caught::Aborted)).collect()
    };
    SimResult {
        outcomes,
        trace: std::mem::take(&mut st.trace),
        choices: std::mem::take(&mut st.choices),
        enabled_counts: std::mem::take(&mut st.enabled_counts),
        violation: st.violation.take(),
        diverged: st.diverged,
        lock_count: st.locks.len(),
        entropy_draws,
        nondeterministic: st.nondeterministic,
        inconclusive: st.inconclusive,
    }
}

pub fn trace_hash(trace: &[TraceEv]) -> u64 {
    let mut h = util::LogHash::new();
    for e in trace {
        h.u64(e.tid as u64);
        h.str(e.what);
        h.u64(e.lock as u64);
        h.str(e.site);
        h.u64(e.line as u64);
    }
    h.finish()
}

pub fn trace_json(trace: &[TraceEv]) -> Value {
    Value::Array(
        trace
            .iter()
            .map(|e| {
                if e.site.is_empty() {
                    json!(format!("t{} {}", e.tid, e.what))
                } else {
                    json!(format!("t{} {} lock{} {}:{}", e.tid, e.what, e.lock, e.site, e.line))
                }
            })
            .collect(),
    )
}

/// True if two different threads have overlapping activity windows on the same lock.
pub fn has_overlap(trace: &[TraceEv], n: usize) -> bool {
    let mut lock_ids: Vec<usize> = trace.iter().filter(|e| !e.site.is_empty()).map(|e| e.lock).collect();
    lock_ids.sort();
    lock_ids.dedup();
    for l in lock_ids {
        let mut win: Vec<Option<(usize, usize)>> = vec![None; n];
        for (i, e) in trace.iter().enumerate() {
            if !e.site.is_empty() && e.lock == l {
                win[e.tid] = Some(match win[e.tid] {
                    None => (i, i),
                    Some((a, _)) => (a, i),
                });
            }
        }
        let ws: Vec<(usize, usize)> = win.into_iter().flatten().collect();
        for i in 0..ws.len() {
            for j in i + 1..ws.len() {
                if ws[i].0 <= ws[j].1 && ws[j].0 <= ws[i].1 {
                    return true;
                }
            }
        }
    }
    false
}

/// Count the scheduling points a closure passes through when run alone.
pub struct CountHooks {
    pub count: AtomicU64,
    ent_seed: u64,
    ent_counter: AtomicU64,
}
impl CountHooks {
    pub fn new(ent_seed: u64) -> Arc<Self> {
        Arc::new(CountHooks { count: AtomicU64::new(0), ent_seed, ent_counter: AtomicU64::new(0) })
    }
}
impl Hooks for CountHooks {
    fn sched(&self, _e: SchedEvent) {
        self.count.fetch_add(1, Ordering::SeqCst);
    }
    fn entropy(&self) -> Option<[u8; 64]> {
        let n = self.ent_counter.fetch_add(1, Ordering::SeqCst);
        Some(crate::gen::EntropyHook::seed_for(self.ent_seed, n))
    }
}

/// Run one closure as the only simulated thread: same lock model and watchdog as a concurrent
/// run, so that a self-deadlock or a stall in *sequential* use is reported instead of hanging
/// the harness. Returns the value and the number of scheduling points passed.
pub fn solo<R: Send + 'static>(ent_seed: u64, f: Box<dyn FnOnce() -> R + Send>) -> Result<(Caught<R>, usize), (String, String)> {
    let cfg = SimConfig {
        policy: Policy::WriterPref,
        strategy: Strategy::Random,
        sched_seed: 0,
        step_cap: 1_000_000,
        ent_seeds: vec![ent_seed],
        stall_secs: 30,
    };
    let mut res = simulate(cfg, vec![f], None);
    if let Some(v) = res.violation {
        return Err(v);
    }
    let out = res.outcomes.pop().unwrap_or(Caught::Aborted);
    Ok((out, res.trace.len()))
}
