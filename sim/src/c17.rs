//! C17 — shared decryptor / key generator / evaluator behave as if calls ran one at a time.
//!
//! System: one HeContext, one Decryptor, one KeyGenerator(from_sk), one Evaluator, one Encryptor,
//! shared by 2-4 simulated threads (all real code). The scheduler of `sched.rs` decides every
//! interleaving at the lock phases of the three lazily grown caches. Oracle: every concurrent
//! result is byte-identical to the result of the same call in a sequential reference execution on
//! fresh objects (same secret key, same per-thread entropy stream); plus step invariants
//! (monotone cache, entries equal the sequentially computed powers, Galois tables equal their
//! definition), no deadlock, no stall, bounded progress.

use crate::driver::{self, Batch, Report, RunOut, Tier, Violation};
use crate::gen::{self, ParamSpec, SpecOpts, World, BFV, BGV, CKKS};
use crate::objs::Obj;
use crate::prng::{self, Prng};
use crate::sched::{self, Policy, SimConfig, Strategy, TraceEv};
use crate::util::{self, Caught, LogHash};
use heathcliff::*;
use serde_json::{json, Value};
use std::sync::Arc;

pub const PROP: &str = "C17";

#[derive(Clone, Debug, PartialEq)]
pub enum Op {
    /// decrypt a canonical-residue ciphertext of the given size / level / form
    Decrypt { size: usize, level: usize, ntt: bool, seed: u64 },
    /// decrypt enc(m)^(2^squarings) produced with the real evaluator
    DecryptReal { squarings: usize, seed: u64 },
    NoiseBudget { size: usize, level: usize, seed: u64 },
    Relin { save_seed: bool },
    Pk { save_seed: bool },
    Galois { elts: Vec<usize>, save_seed: bool },
    /// Galois keys requested by rotation step counts (create_galois_keys_from_steps)
    GaloisSteps { steps: Vec<isize>, save_seed: bool },
    KSwitch { save_seed: bool, seed: u64 },
    ApplyGalois { elt: usize, level: usize, seed: u64 },
    ApplyGaloisPlain { elt: usize, level: usize, seed: u64 },
    Encrypt { sym: bool, seed: u64 },
    /// rotate_rows (BFV/BGV) / rotate_vector (CKKS) by a step count on the shared evaluator
    Rotate { steps: isize, level: usize, seed: u64 },
    /// encode and decode on the shared encoder (immutable objects; exercised for the "encoder or context shared" clause)
    Encode { seed: u64 },
    /// read-only queries on the shared context: step -> Galois element resolution on the key-level
    /// Galois tool, the modulus-chain walk, parameter lookups ("context shared by several threads")
    ContextQuery { steps: isize },
}

impl Op {
    pub fn kind(&self) -> &'static str {
        match self {
            Op::Decrypt { .. } => "decrypt",
            Op::DecryptReal { .. } => "decrypt-real",
            Op::NoiseBudget { .. } => "noise-budget",
            Op::Relin { .. } => "relin-keys",
            Op::Pk { .. } => "public-key",
            Op::Galois { .. } => "galois-keys",
            Op::GaloisSteps { .. } => "galois-keys-from-steps",
            Op::KSwitch { .. } => "kswitch-key",
            Op::ApplyGalois { .. } => "apply-galois",
            Op::ApplyGaloisPlain { .. } => "apply-galois-plain",
            Op::Encrypt { .. } => "encrypt",
            Op::Encode { .. } => "encode-decode",
            Op::Rotate { .. } => "rotate-by-steps",
            Op::ContextQuery { .. } => "context-query",
        }
    }
    pub fn to_json(&self) -> Value {
        match self {
            Op::Decrypt { size, level, ntt, seed } => json!({"op": "decrypt", "size": size, "level": level, "ntt": ntt, "seed": seed}),
            Op::DecryptReal { squarings, seed } => json!({"op": "decrypt-real", "squarings": squarings, "seed": seed}),
            Op::NoiseBudget { size, level, seed } => json!({"op": "noise-budget", "size": size, "level": level, "seed": seed}),
            Op::Relin { save_seed } => json!({"op": "relin-keys", "save_seed": save_seed}),
            Op::Pk { save_seed } => json!({"op": "public-key", "save_seed": save_seed}),
            Op::Galois { elts, save_seed } => json!({"op": "galois-keys", "elts": elts, "save_seed": save_seed}),
            Op::GaloisSteps { steps, save_seed } => json!({"op": "galois-keys-from-steps", "steps": steps, "save_seed": save_seed}),
            Op::KSwitch { save_seed, seed } => json!({"op": "kswitch-key", "save_seed": save_seed, "seed": seed}),
            Op::ApplyGalois { elt, level, seed } => json!({"op": "apply-galois", "elt": elt, "level": level, "seed": seed}),
            Op::ApplyGaloisPlain { elt, level, seed } => json!({"op": "apply-galois-plain", "elt": elt, "level": level, "seed": seed}),
            Op::Encrypt { sym, seed } => json!({"op": "encrypt", "sym": sym, "seed": seed}),
            Op::Encode { seed } => json!({"op": "encode-decode", "seed": seed}),
            Op::Rotate { steps, level, seed } => json!({"op": "rotate-by-steps", "steps": steps, "level": level, "seed": seed}),
            Op::ContextQuery { steps } => json!({"op": "context-query", "steps": steps}),
        }
    }
    pub fn from_json(v: &Value) -> Option<Op> {
        let u = |k: &str| v[k].as_u64();
        let b = |k: &str| v[k].as_bool();
        Some(match v["op"].as_str()? {
            "decrypt" => Op::Decrypt { size: u("size")? as usize, level: u("level")? as usize, ntt: b("ntt")?, seed: u("seed")? },
            "decrypt-real" => Op::DecryptReal { squarings: u("squarings")? as usize, seed: u("seed")? },
            "noise-budget" => Op::NoiseBudget { size: u("size")? as usize, level: u("level")? as usize, seed: u("seed")? },
            "relin-keys" => Op::Relin { save_seed: b("save_seed")? },
            "public-key" => Op::Pk { save_seed: b("save_seed")? },
            "galois-keys" => Op::Galois {
                elts: v["elts"].as_array()?.iter().map(|x| x.as_u64().map(|y| y as usize)).collect::<Option<Vec<_>>>()?,
                save_seed: b("save_seed")?,
            },
            "galois-keys-from-steps" => Op::GaloisSteps {
                steps: v["steps"].as_array()?.iter().map(|x| x.as_i64().map(|y| y as isize)).collect::<Option<Vec<_>>>()?,
                save_seed: b("save_seed")?,
            },
            "kswitch-key" => Op::KSwitch { save_seed: b("save_seed")?, seed: u("seed")? },
            "apply-galois" => Op::ApplyGalois { elt: u("elt")? as usize, level: u("level")? as usize, seed: u("seed")? },
            "apply-galois-plain" => Op::ApplyGaloisPlain { elt: u("elt")? as usize, level: u("level")? as usize, seed: u("seed")? },
            "encrypt" => Op::Encrypt { sym: b("sym")?, seed: u("seed")? },
            "encode-decode" => Op::Encode { seed: u("seed")? },
            "rotate-by-steps" => Op::Rotate { steps: v["steps"].as_i64()? as isize, level: u("level")? as usize, seed: u("seed")? },
            "context-query" => Op::ContextQuery { steps: v["steps"].as_i64()? as isize },
            _ => return None,
        })
    }
}

#[derive(Clone, Debug)]
pub struct Scn {
    pub spec: ParamSpec,
    pub ent: u64,
    pub threads: Vec<Vec<Op>>,
    pub policy: Policy,
}

impl Scn {
    pub fn to_json(&self) -> Value {
        json!({
            "spec": self.spec.to_json(),
            "entropy_seed": self.ent,
            "policy": if self.policy == Policy::WriterPref { "writer-preferring" } else { "reader-preferring" },
            "threads": self.threads.iter().map(|t| Value::Array(t.iter().map(|o| o.to_json()).collect())).collect::<Vec<_>>(),
        })
    }
    pub fn from_json(v: &Value) -> Option<Scn> {
        Some(Scn {
            spec: ParamSpec::from_json(&v["spec"])?,
            ent: v["entropy_seed"].as_u64()?,
            policy: if v["policy"].as_str()? == "writer-preferring" { Policy::WriterPref } else { Policy::ReaderPref },
            threads: v["threads"]
                .as_array()?
                .iter()
                .map(|t| t.as_array().and_then(|ops| ops.iter().map(Op::from_json).collect::<Option<Vec<_>>>()))
                .collect::<Option<Vec<_>>>()?,
        })
    }
    fn ent_seeds(&self) -> Vec<u64> {
        (0..self.threads.len()).map(|t| prng::mix(self.ent, 0x7EAD, t as u64)).collect()
    }
    fn rotate_steps(&self) -> Vec<isize> {
        let mut v: Vec<isize> = self.threads.iter().flatten().filter_map(|o| if let Op::Rotate { steps, .. } = o { Some(*steps) } else { None }).collect();
        v.sort();
        v.dedup();
        v
    }
    fn galois_elts(&self) -> Vec<usize> {
        let mut v: Vec<usize> = self
            .threads
            .iter()
            .flatten()
            .filter_map(|o| if let Op::ApplyGalois { elt, .. } = o { Some(*elt) } else { None })
            .collect();
        v.sort();
        v.dedup();
        v
    }
}

/// Setup artefacts built once per scenario in a private context (so that the shared context's
/// caches start empty in every execution).
pub struct Setup {
    pub world: World,
    pub galois: Option<GaloisKeys>,
    /// reference powers s, s^2, ... in NTT form at the key level (from a private sequential decryptor)
    pub ref_powers: Vec<u64>,
    pub ref_tables: Vec<Vec<usize>>,
    pub key_poly: usize,
}

const MAX_SIZE: usize = 9;

pub fn setup(scn: &Scn) -> Result<Setup, String> {
    gen::with_entropy(scn.ent, |_| {
        let world = gen::build_world(&scn.spec)?;
        let mut elts = scn.galois_elts();
        let steps = scn.rotate_steps();
        if !steps.is_empty() {
            let kcd = world.ctx.key_context_data().unwrap();
            let tool = kcd.verif_galois_tool();
            for e in util::catch_res(|| tool.get_elts_from_steps(&steps))? {
                if !elts.contains(&e) {
                    elts.push(e);
                }
            }
        }
        let galois = if !elts.is_empty() && world.uses_keyswitching() {
            Some(util::catch_res(|| world.keygen.create_galois_keys_from_elts(&elts, false))?)
        } else {
            None
        };
        let key_mods = world.ctx.key_context_data().unwrap().parms().coeff_modulus().len();
        let key_poly = key_mods * scn.spec.n;
        // reference powers via a private decryptor used sequentially (run as a single simulated
        // thread so that a self-deadlock in sequential use is reported, not hung on)
        let dec = Arc::new(Decryptor::new(world.ctx.clone(), world.sk.clone()));
        let mut r = Prng::new(1);
        let first = *world.ctx.first_parms_id();
        let big = world.synthetic_cipher(&mut r, MAX_SIZE, first, world.default_ntt());
        let dec2 = dec.clone();
        match sched::solo(0, Box::new(move || { dec2.decrypt_new(&big); })) {
            Ok((Caught::Ok(()), _)) => {}
            Ok((Caught::Panic(m), _)) => return Err(format!("setup decrypt panicked: {}", m)),
            Ok((Caught::Aborted, _)) => return Err("setup aborted".into()),
            Err((class, detail)) => return Err(format!("SEQUENTIAL-VIOLATION {}: {}", class, detail)),
        }
        let ref_powers = dec.verif_cache_snapshot().ok_or("no snapshot")?;
        let tool_ctx = world.ctx.key_context_data().unwrap();
        let tool = tool_ctx.verif_galois_tool();
        let ref_tables = if scn.spec.n <= 256 { (0..scn.spec.n).map(|i| tool.generate_table_ntt(2 * i + 1)).collect() } else { Vec::new() };
        Ok(Setup { world, galois, ref_powers, ref_tables, key_poly })
    })
}

/// The shared objects of one execution (fresh caches).
pub struct SharedObjs {
    pub ctx: Arc<HeContext>,
    pub dec: Decryptor,
    pub keygen: KeyGenerator,
    pub eval: Evaluator,
    pub enc: Encryptor,
    pub batch: Option<BatchEncoder>,
    pub ckks: Option<CKKSEncoder>,
}

pub fn fresh_shared(scn: &Scn, su: &Setup) -> Result<Arc<SharedObjs>, String> {
    let ctx = gen::build_context(&scn.spec)?;
    let sk = su.world.sk.clone();
    let pk = su.world.pk.clone();
    let scheme = scn.spec.scheme;
    let batching = su.world.batching();
    util::catch_res(move || {
        Arc::new(SharedObjs {
            dec: Decryptor::new(ctx.clone(), sk.clone()),
            keygen: KeyGenerator::from_sk(ctx.clone(), sk.clone()),
            eval: Evaluator::new(ctx.clone()),
            enc: Encryptor::new(ctx.clone()).set_public_key(pk).set_secret_key(sk),
            batch: if scheme != CKKS && batching { Some(BatchEncoder::new(ctx.clone())) } else { None },
            ckks: if scheme == CKKS { Some(CKKSEncoder::new(ctx.clone())) } else { None },
            ctx,
        })
    })
}

fn ser_obj(o: Obj, ctx: &HeContext) -> Vec<u8> {
    let mut v = Vec::new();
    o.ser(ctx, &mut v).expect("serialization into a Vec cannot fail");
    v
}

/// Execute one operation against the shared objects; the result is its byte encoding.
pub fn exec_op(op: &Op, sh: &SharedObjs, su: &Setup) -> Vec<u8> {
    let w = &su.world;
    let levels = w.data_levels();
    let lvl = |i: usize| levels[i.min(levels.len() - 1)];
    match op {
        Op::Decrypt { size, level, ntt, seed } => {
            let c = w.synthetic_cipher(&mut Prng::new(*seed), *size, lvl(*level), *ntt);
            ser_obj(Obj::Plain(sh.dec.decrypt_new(&c)), &sh.ctx)
        }
        Op::DecryptReal { squarings, seed } => {
            let mut r = Prng::new(*seed);
            let p = w.random_plain(&mut r);
            // built with the private tools of the setup world, under a fixed entropy stream
            let c = gen::with_entropy(*seed, |_| {
                let mut c = w.encryptor.encrypt_new(&p);
                for _ in 0..*squarings {
                    c = w.evaluator.square_new(&c);
                }
                c
            });
            ser_obj(Obj::Plain(sh.dec.decrypt_new(&c)), &sh.ctx)
        }
        Op::NoiseBudget { size, level, seed } => {
            let c = w.synthetic_cipher(&mut Prng::new(*seed), *size, lvl(*level), false);
            (sh.dec.invariant_noise_budget(&c) as u64).to_le_bytes().to_vec()
        }
        Op::Relin { save_seed } => ser_obj(Obj::Relin(sh.keygen.create_relin_keys(*save_seed)), &sh.ctx),
        Op::Pk { save_seed } => ser_obj(Obj::Pk(sh.keygen.create_public_key(*save_seed)), &sh.ctx),
        // an empty element list stands for the default key set (create_galois_keys)
        Op::Galois { elts, save_seed } if elts.is_empty() => ser_obj(Obj::Galois(sh.keygen.create_galois_keys(*save_seed)), &sh.ctx),
        Op::Galois { elts, save_seed } => ser_obj(Obj::Galois(sh.keygen.create_galois_keys_from_elts(elts, *save_seed)), &sh.ctx),
        Op::GaloisSteps { steps, save_seed } => ser_obj(Obj::Galois(sh.keygen.create_galois_keys_from_steps(steps, *save_seed)), &sh.ctx),
        Op::KSwitch { save_seed, seed } => {
            // the "other" secret key: a canonical ternary key derived from the seed
            let other = gen::with_entropy(*seed, |_| KeyGenerator::new(w.ctx.clone()).secret_key().clone());
            ser_obj(Obj::KSwitch(sh.keygen.create_keyswitching_key(&other, *save_seed)), &sh.ctx)
        }
        Op::ApplyGalois { elt, level, seed } => {
            let c = w.synthetic_cipher(&mut Prng::new(*seed), 2, lvl(*level), true);
            let gk = su.galois.as_ref().expect("galois keys prepared at setup");
            ser_obj(Obj::Ct(sh.eval.apply_galois_new(&c, *elt, gk)), &sh.ctx)
        }
        Op::ApplyGaloisPlain { elt, level, seed } => {
            let mut r = Prng::new(*seed);
            let id = lvl(*level);
            let moduli = w.level_moduli(&id);
            let mut p = Plaintext::new();
            p.resize(moduli.len() * w.spec.n);
            for (j, &m) in moduli.iter().enumerate() {
                for i in 0..w.spec.n {
                    p.data_mut()[j * w.spec.n + i] = r.below(m);
                }
            }
            p.set_parms_id(id);
            ser_obj(Obj::Plain(sh.eval.apply_galois_plain_new(&p, *elt)), &sh.ctx)
        }
        Op::Rotate { steps, level, seed } => {
            let c = w.synthetic_cipher(&mut Prng::new(*seed), 2, lvl(*level), w.default_ntt());
            let gk = su.galois.as_ref().expect("galois keys prepared at setup");
            let r = if w.spec.scheme == CKKS { sh.eval.rotate_vector_new(&c, *steps, gk) } else { sh.eval.rotate_rows_new(&c, *steps, gk) };
            ser_obj(Obj::Ct(r), &sh.ctx)
        }
        Op::ContextQuery { steps } => {
            let mut out = Vec::new();
            let kcd = sh.ctx.key_context_data().unwrap();
            let tool = kcd.verif_galois_tool();
            out.extend_from_slice(&(tool.get_elt_from_step(*steps) as u64).to_le_bytes());
            for e in tool.get_elts_from_steps(&[*steps, 1, -*steps]) {
                out.extend_from_slice(&(e as u64).to_le_bytes());
            }
            out.extend_from_slice(&(tool.get_elts_all().len() as u64).to_le_bytes());
            // walk the chain from the first data level down
            let mut cd = sh.ctx.first_context_data();
            while let Some(c) = cd {
                out.extend_from_slice(&(c.parms().coeff_modulus().len() as u64).to_le_bytes());
                out.extend_from_slice(&(c.chain_index() as u64).to_le_bytes());
                cd = c.next_context_data();
            }
            out
        }
        Op::Encode { seed } => {
            let mut r = Prng::new(*seed);
            if let Some(e) = &sh.ckks {
                let vals: Vec<num_complex::Complex<f64>> = (0..e.slot_count()).map(|_| num_complex::Complex::new(r.below(9) as f64 - 4.0, r.below(9) as f64 - 4.0)).collect();
                // one encode in four uses a scale so large that the scaled coefficients need the
                // encoder's multi-precision path (where the modulus has the room for it)
                let data_bits: usize = w.level_moduli(&levels[0]).iter().map(|&q| 64 - q.leading_zeros() as usize).sum();
                let scale = if *seed % 4 == 0 && data_bits >= 150 { 2f64.powi((data_bits as i32 - 10).min(160)) } else { (1u64 << 20) as f64 };
                let p = e.encode_c64_array_new(&vals, None, scale);
                let back = e.decode_new(&p);
                let mut out = ser_obj(Obj::Plain(p), &sh.ctx);
                for c in back {
                    out.extend_from_slice(&c.re.to_bits().to_le_bytes());
                    out.extend_from_slice(&c.im.to_bits().to_le_bytes());
                }
                out
            } else if let Some(e) = &sh.batch {
                let vals: Vec<u64> = (0..e.slot_count()).map(|_| r.below(w.spec.t)).collect();
                let p = e.encode_new(&vals);
                let back = e.decode_new(&p);
                let mut out = ser_obj(Obj::Plain(p), &sh.ctx);
                for v in back {
                    out.extend_from_slice(&v.to_le_bytes());
                }
                out
            } else {
                Vec::new()
            }
        }
        Op::Encrypt { sym, seed } => {
            let p = w.random_plain(&mut Prng::new(*seed));
            let c = if *sym { sh.enc.encrypt_symmetric_new(&p) } else { sh.enc.encrypt_new(&p) };
            ser_obj(Obj::Ct(c), &sh.ctx)
        }
    }
}

#[derive(Clone, Debug, PartialEq)]
pub enum OpOut {
    Ok(Vec<u8>),
    Panic(String),
}

fn run_ops(ops: &[Op], sh: &SharedObjs, su: &Setup) -> Vec<OpOut> {
    ops.iter()
        .map(|op| match util::catch(|| exec_op(op, sh, su)) {
            Caught::Ok(b) => OpOut::Ok(b),
            Caught::Panic(m) => OpOut::Panic(m),
            Caught::Aborted => std::panic::resume_unwind(Box::new(util::AbortRun)),
        })
        .collect()
}

pub struct Reference {
    pub outs: Vec<Vec<OpOut>>,
    pub points: u64,
}

/// Sequential reference: thread 0's calls, then thread 1's, ... on fresh objects. Each thread's
/// calls run as a single simulated thread (lock model + watchdog active).
pub fn reference(scn: &Scn, su: &Arc<Setup>) -> Result<Reference, String> {
    let sh = fresh_shared(scn, su)?;
    let seeds = scn.ent_seeds();
    let mut outs = Vec::new();
    let mut points = 0;
    for (t, ops) in scn.threads.iter().enumerate() {
        let ops2 = ops.clone();
        let sh2 = sh.clone();
        let su2 = su.clone();
        match sched::solo(seeds[t], Box::new(move || run_ops(&ops2, &sh2, &su2))) {
            Ok((Caught::Ok(o), p)) => {
                points += p as u64;
                outs.push(o);
            }
            Ok((Caught::Panic(m), _)) => return Err(format!("reference thread panicked: {}", m)),
            Ok((Caught::Aborted, _)) => return Err("reference aborted".into()),
            Err((class, detail)) => return Err(format!("SEQUENTIAL-VIOLATION {}: {}", class, detail)),
        }
    }
    Ok(Reference { outs, points })
}

fn make_probe(sh: Arc<SharedObjs>, su: &Setup) -> Box<dyn FnMut(&[TraceEv]) -> Result<(), String> + Send> {
    let ref_powers = su.ref_powers.clone();
    let ref_tables = su.ref_tables.clone();
    let key_poly = su.key_poly;
    let mut last_dec = 0usize;
    let mut last_kg = 0usize;
    Box::new(move |_trace| {
        let mut check = |name: &str, snap: Option<Vec<u64>>, last: &mut usize| -> Result<(), String> {
            if let Some(v) = snap {
                if v.is_empty() || v.len() % key_poly != 0 {
                    return Err(format!("{} cache has length {} which is not a positive multiple of the key polynomial size {}", name, v.len(), key_poly));
                }
                let count = v.len() / key_poly;
                if count < *last {
                    return Err(format!("{} cache shrank from {} to {} powers", name, *last, count));
                }
                *last = count;
                if v.len() <= ref_powers.len() && v[..] != ref_powers[..v.len()] {
                    let bad = (0..count).find(|&k| v[k * key_poly..(k + 1) * key_poly] != ref_powers[k * key_poly..(k + 1) * key_poly]).unwrap_or(0);
                    return Err(format!("{} cache entry for power {} differs from the sequentially computed s^{}", name, bad + 1, bad + 1));
                }
            }
            Ok(())
        };
        check("decryptor", sh.dec.verif_cache_snapshot(), &mut last_dec)?;
        check("key-generator", sh.keygen.verif_cache_snapshot(), &mut last_kg)?;
        let kcd = sh.ctx.key_context_data().unwrap();
        if ref_tables.is_empty() {
            return Ok(()); // large ring: copying hundreds of tables after every step is not affordable
        }
        if let Some(tables) = kcd.verif_galois_tool().verif_tables_snapshot() {
            for (i, t) in tables.iter().enumerate() {
                if !t.is_empty() && i < ref_tables.len() && *t != ref_tables[i] {
                    return Err(format!("Galois permutation table for element {} differs from its definition", 2 * i + 1));
                }
            }
        }
        Ok(())
    })
}

pub struct Exec {
    pub bad: Option<(String, String, String)>, // (class, key-part, detail)
    pub trace: Vec<TraceEv>,
    pub choices: Vec<u8>,
    pub enabled_counts: Vec<u8>,
    pub diverged: bool,
    pub degenerate_ops: usize,
    pub total_ops: usize,
    pub nondeterministic: bool,
    pub free_run: bool,
}

/// One concurrent execution under a given strategy, judged against the reference.
pub fn execute(scn: &Scn, su: &Arc<Setup>, rf: &Reference, strategy: Strategy, sched_seed: u64) -> Result<Exec, String> {
    let sh = fresh_shared(scn, su)?;
    let free_run = matches!(strategy, Strategy::FreeRun);
    let probe = make_probe(sh.clone(), su);
    let mut bodies: Vec<Box<dyn FnOnce() -> Vec<OpOut> + Send>> = Vec::new();
    for ops in scn.threads.iter() {
        let ops = ops.clone();
        let sh2 = sh.clone();
        let su2 = su.clone();
        bodies.push(Box::new(move || run_ops(&ops, &sh2, &su2)));
    }
    let cfg = SimConfig {
        policy: scn.policy,
        strategy,
        sched_seed,
        step_cap: (rf.points as usize) * 20 + 200,
        ent_seeds: scn.ent_seeds(),
        stall_secs: 30,
    };
    let res = sched::simulate(cfg, bodies, Some(probe));
    if res.inconclusive {
        return Err("given up unjudged: stall after a baton hand-over".into());
    }
    let mut bad = res.violation.clone().map(|(c, d)| {
        let part = if c == "invariant" { d.split(' ').next().unwrap_or("cache").to_string() } else { "schedule".to_string() };
        (c, part, d)
    });
    let mut degenerate_ops = 0;
    let mut total_ops = 0;
    if bad.is_none() && !res.diverged {
        'outer: for (t, out) in res.outcomes.iter().enumerate() {
            match out {
                Caught::Ok(outs) => {
                    for (i, o) in outs.iter().enumerate() {
                        total_ops += 1;
                        let want = &rf.outs[t][i];
                        let kind = scn.threads[t][i].kind();
                        match (want, o) {
                            (OpOut::Panic(_), OpOut::Panic(_)) => degenerate_ops += 1,
                            (OpOut::Ok(a), OpOut::Ok(b)) if a == b => {}
                            (OpOut::Ok(a), OpOut::Ok(b)) => {
                                let first = a.iter().zip(b.iter()).position(|(x, y)| x != y).unwrap_or(a.len().min(b.len()));
                                bad = Some((
                                    "result-mismatch".into(),
                                    kind.into(),
                                    format!(
                                        "thread {} call {} ({}) returned {} bytes (hash {:016x}) but the sequential execution returns {} bytes (hash {:016x}); first difference at byte {}",
                                        t, i, scn.threads[t][i].to_json(), b.len(), util::h64(b), a.len(), util::h64(a), first
                                    ),
                                ));
                                break 'outer;
                            }
                            (OpOut::Ok(_), OpOut::Panic(m)) => {
                                bad = Some((
                                    "panic".into(),
                                    kind.into(),
                                    format!("thread {} call {} ({}) panicked: {} — the sequential execution returns a value", t, i, scn.threads[t][i].to_json(), m),
                                ));
                                break 'outer;
                            }
                            (OpOut::Panic(m), OpOut::Ok(_)) => {
                                bad = Some((
                                    "result-mismatch".into(),
                                    kind.into(),
                                    format!("thread {} call {} ({}) returned a value but the sequential execution panics: {}", t, i, scn.threads[t][i].to_json(), m),
                                ));
                                break 'outer;
                            }
                        }
                    }
                }
                Caught::Panic(m) => {
                    bad = Some(("panic".into(), "thread".into(), format!("thread {} panicked outside an operation: {}", t, m)));
                    break;
                }
                Caught::Aborted => {
                    bad = Some(("stall".into(), "thread".into(), format!("thread {} was aborted without a recorded violation", t)));
                    break;
                }
            }
        }
    }
    Ok(Exec { bad, trace: res.trace, choices: res.choices, enabled_counts: res.enabled_counts, diverged: res.diverged, degenerate_ops, total_ops, nondeterministic: res.nondeterministic, free_run })
}

// ---------------------------------------------------------------------------------------
// Scenario generation

/// A realistic ring size with hundreds of different Galois elements: the only way to reach code
/// whose behaviour depends on a size budget (a cache that evicts, a table that spills).
fn gen_large_scenario(rng: &mut Prng, run_seed: u64) -> Option<Scn> {
    let n = *rng.pick(&[2048usize, 4096]);
    let factor = 2 * n as u64;
    let scheme = *rng.pick(&[CKKS, BGV, BFV]);
    let mut q = Vec::new();
    for bits in [36usize, 50] {
        q.push(gen::find_prime(rng, factor, bits, &q)?);
    }
    let t = if scheme == CKKS { 0 } else { gen::find_prime(rng, factor, 17, &q)? };
    let spec = ParamSpec { scheme, n, q, t, expand_chain: true, special_enc: false };
    let nthreads = rng.range(3, 4);
    let per_thread = 2 * (1usize << 20) / n / nthreads + 40; // together: about twice as many elements as 2^20/N
    let threads = (0..nthreads)
        .map(|_| (0..per_thread).map(|_| Op::ApplyGaloisPlain { elt: 2 * rng.usize_below(n) + 1, level: 0, seed: rng.next_u64() >> 1 }).collect())
        .collect();
    Some(Scn { spec, ent: prng::mix(run_seed, 0xC17, 1), threads, policy: if rng.coin() { Policy::WriterPref } else { Policy::ReaderPref } })
}

/// "Hammer" scenario for the supplementary free-running mode: four threads repeat one kind of call
/// on the shared objects a few hundred times, each thread with its own argument (step count,
/// Galois element, ciphertext size, message). A race between two plain loads or stores — state
/// that is shared without any lock, which the baton scheduler cannot pre-empt — needs this many
/// truly parallel repetitions to show; the oracle is the usual one (every call returns what the
/// sequential execution returns).
fn gen_hammer_scenario(rng: &mut Prng, run_seed: u64) -> Option<Scn> {
    let family = rng.below(10);
    let mut opts = SpecOpts {
        schemes: vec![BFV, BGV, CKKS],
        ns: vec![32, 64],
        min_primes: 2,
        max_primes: 3,
        qbits: vec![30, 40, 50],
        tbits: vec![13, 17],
        batching: true,
    };
    if family >= 8 {
        // encoder hammer with room for very large CKKS scales (the encoder's multi-precision path)
        opts.schemes = vec![CKKS];
        opts.min_primes = 4;
        opts.max_primes = 4;
        opts.qbits = vec![58, 60];
    }
    let spec = gen::draw_spec(rng, &opts)?;
    let n = spec.n;
    let nlevels = spec.q.len() - 1;
    let nthreads = 4;
    let half = (n / 2) as isize;
    let step_pool = [1isize, 2, -1, 5, 3, -2, half - 1];
    let mut threads = Vec::new();
    for t in 0..nthreads {
        let level = rng.usize_below(nlevels.max(1));
        let seed = rng.next_u64() >> 1;
        let my_step = step_pool[(t + rng.usize_below(3)) % step_pool.len()];
        let my_step = if my_step.unsigned_abs() as isize >= half || my_step == 0 { 1 } else { my_step };
        let my_elt = 2 * rng.usize_below(n) + 1;
        let ops: Vec<Op> = match family {
            // rotations by a per-thread step count (evaluator + context-level Galois tool)
            0 | 1 => (0..1200).map(|_| Op::Rotate { steps: my_step, level, seed }).collect(),
            // cheap read-only queries on the shared context, many more of them
            2 => (0..20000).map(|k| if k % 50 == 49 { Op::Rotate { steps: my_step, level, seed } } else { Op::ContextQuery { steps: my_step } }).collect(),
            // Galois key generation for a per-thread element / step
            3 => (0..100).map(|_| Op::Galois { elts: vec![my_elt], save_seed: t % 2 == 0 }).collect(),
            // automorphisms by a per-thread element
            4 => (0..600)
                .map(|_| if spec.scheme == BFV { Op::ApplyGaloisPlain { elt: my_elt, level, seed } } else { Op::ApplyGalois { elt: my_elt, level, seed } })
                .collect(),
            // encoder and encryptor
            5 | 8 | 9 => (0..400).map(|k| if k % 3 == 2 { Op::Encrypt { sym: t % 2 == 0, seed } } else { Op::Encode { seed: seed.wrapping_add(k as u64) >> 1 } }).collect(),
            // decryptions of a per-thread size
            6 => (0..400).map(|_| Op::Decrypt { size: 2 + t, level, ntt: spec.scheme != BFV, seed }).collect(),
            // key generator: relinearization, public and key-switching keys
            _ => (0..100)
                .map(|k| match (k + t) % 3 {
                    0 => Op::Relin { save_seed: t % 2 == 0 },
                    1 => Op::Pk { save_seed: t % 2 == 1 },
                    _ => Op::KSwitch { save_seed: false, seed },
                })
                .collect(),
        };
        threads.push(ops);
    }
    Some(Scn { spec, ent: prng::mix(run_seed, 0xC17, 2), threads, policy: if rng.coin() { Policy::WriterPref } else { Policy::ReaderPref } })
}

fn gen_scenario(rng: &mut Prng, run_seed: u64) -> Option<Scn> {
    let opts = SpecOpts {
        schemes: vec![BFV, BGV, CKKS],
        ns: vec![8, 16, 32],
        min_primes: 2,
        max_primes: 4,
        qbits: vec![20, 25, 30, 33, 40, 45, 50, 60],
        tbits: vec![8, 13, 17],
        batching: true,
    };
    let spec = gen::draw_spec(rng, &opts)?;
    let nlevels = spec.q.len() - 1;
    let n = spec.n;
    let nthreads = rng.range(2, 4);
    let focus = rng.below(5); // 0 decrypt-heavy, 1 keygen-heavy, 2 galois-heavy, 3 mixed, 4 rotation-heavy
    let default_ntt = spec.scheme != BFV;
    let mut shared_elts: Vec<usize> = (0..rng.range(1, 3)).map(|_| 2 * rng.usize_below(n) + 1).collect();
    shared_elts.dedup();
    // now and then use as many different elements as possible (a cache with a capacity shows only then)
    let many_elts = rng.chance(1, 5);
    let mut threads = Vec::new();
    for _ in 0..nthreads {
        let nops = if focus == 4 || many_elts { rng.range(2, 4) } else { rng.range(1, 3) };
        let mut ops = Vec::new();
        for _ in 0..nops {
            let pickset: &[u64] = match focus {
                0 => &[0, 0, 0, 1, 2],
                1 => &[3, 3, 4, 5, 6],
                2 => &[5, 7, 7, 8, 8, 11, 11],
                4 => &[11, 11, 11, 11, 7, 5],
                _ => &[0, 1, 2, 3, 4, 5, 6, 7, 8, 9, 10, 11],
            };
            let k = *rng.pick(pickset);
            let level = rng.usize_below(nlevels.max(1));
            let seed = rng.next_u64() >> 1;
            let op = match k {
                0 => Op::Decrypt { size: rng.range(2, MAX_SIZE), level, ntt: default_ntt, seed },
                1 => Op::DecryptReal { squarings: rng.range(0, 1), seed },
                2 => {
                    if spec.scheme == CKKS {
                        Op::Decrypt { size: rng.range(2, MAX_SIZE), level, ntt: true, seed }
                    } else {
                        Op::NoiseBudget { size: rng.range(2, MAX_SIZE), level, seed }
                    }
                }
                3 => Op::Relin { save_seed: rng.coin() },
                4 => Op::Pk { save_seed: rng.coin() },
                5 => {
                    if rng.chance(1, 6) {
                        // by step counts (needs a batching-capable ring: every spec here is one)
                        let half = (n / 2) as isize;
                        let pool = [1isize, 2, 3, -1, -2, half - 1];
                        let steps: Vec<isize> = (0..rng.range(1, 3)).map(|_| *rng.pick(&pool)).filter(|s| s.unsigned_abs() < half as usize && *s != 0).collect();
                        if !steps.is_empty() {
                            ops.push(Op::GaloisSteps { steps, save_seed: rng.coin() });
                            continue;
                        }
                    }
                    let mut elts = Vec::new();
                    // one request in five asks for the default key set (all power-of-two steps)
                    let default_set = rng.chance(1, 5);
                    for _ in 0..(if default_set { 0 } else if many_elts { rng.range(3, 6) } else { rng.range(1, 3) }) {
                        elts.push(if !many_elts && rng.chance(2, 3) { *rng.pick(&shared_elts) } else { 2 * rng.usize_below(n) + 1 });
                    }
                    Op::Galois { elts, save_seed: rng.coin() }
                }
                6 => Op::KSwitch { save_seed: rng.coin(), seed },
                7 => {
                    let elt = if many_elts { 2 * rng.usize_below(n) + 1 } else { *rng.pick(&shared_elts) };
                    if spec.scheme == BFV {
                        Op::ApplyGaloisPlain { elt, level, seed }
                    } else {
                        Op::ApplyGalois { elt, level, seed }
                    }
                }
                8 => Op::ApplyGaloisPlain { elt: if !many_elts && rng.coin() { *rng.pick(&shared_elts) } else { 2 * rng.usize_below(n) + 1 }, level, seed },
                9 => Op::Encrypt { sym: rng.coin(), seed },
                10 => Op::Encode { seed },
                _ => {
                    // a small pool of step counts so that threads collide on the same and on different ones
                    let half = (n / 2) as isize;
                    let pool = [1isize, 2, 3, half - 1, -1, -2];
                    let st = *rng.pick(&pool);
                    let st = if st.unsigned_abs() as isize >= half || st == 0 { 1 } else { st };
                    Op::Rotate { steps: st, level, seed }
                }
            };
            ops.push(op);
        }
        threads.push(ops);
    }
    Some(Scn { spec, ent: prng::mix(run_seed, 0xC17, 0), threads, policy: if rng.coin() { Policy::WriterPref } else { Policy::ReaderPref } })
}

fn draw_strategy(rng: &mut Prng, nthreads: usize, approx_steps: usize) -> (Strategy, &'static str) {
    match rng.below(10) {
        0..=3 => (Strategy::Random, "random"),
        4 | 5 => (Strategy::Sticky { stay: rng.range(8, 14) as u64 }, "sticky"),
        6 | 7 => {
            let prio: Vec<u64> = {
                let mut p: Vec<u64> = (0..nthreads as u64).map(|i| 100 + i).collect();
                rng.shuffle(&mut p);
                p
            };
            let d = rng.range(1, 3);
            let change_at = (0..d).map(|_| rng.usize_below(approx_steps.max(4))).collect();
            (Strategy::Pct { prio, change_at }, "pct")
        }
        _ => (Strategy::StallWriter { victim: rng.usize_below(nthreads), nth: rng.usize_below(3) }, "stall-writer"),
    }
}

fn strategy_json(s: &Strategy) -> Value {
    match s {
        Strategy::Random => json!("random"),
        Strategy::FreeRun => json!("free-run (real parallelism, supplementary)"),
        Strategy::Sticky { stay } => json!({"sticky": stay}),
        Strategy::Pct { prio, change_at } => json!({"pct": {"prio": prio, "change_at": change_at}}),
        Strategy::StallWriter { victim, nth } => json!({"stall-writer": {"victim": victim, "nth": nth}}),
        Strategy::Forced { choices, strict } => json!({"forced": choices.len(), "strict": strict}),
    }
}

fn violation(scn: &Scn, ex: &Exec, class: &str, part: &str, detail: &str) -> Violation {
    Violation {
        key: format!("{}/{}", class, part.replace(' ', "_")),
        class: class.to_string(),
        detail: format!(
            "{} threads on shared objects ({}; {} lock model), schedule of {} decisions: {}",
            scn.threads.len(),
            scn.spec.class(),
            if scn.policy == Policy::WriterPref { "writer-preferring" } else { "reader-preferring" },
            ex.choices.len(),
            detail
        ),
        replay: json!({
            "scenario": scn.to_json(),
            "choices": ex.choices,
            "free_run": ex.free_run,
            "trace": sched::trace_json(&ex.trace),
        }),
    }
}

/// A deadlock / stall that already shows in sequential use of the shared objects.
fn sequential_violation(scn: &Scn, err: &str) -> Option<Violation> {
    let rest = err.strip_prefix("SEQUENTIAL-VIOLATION ")?;
    let class = rest.split(':').next().unwrap_or("deadlock").to_string();
    Some(Violation {
        key: format!("{}/sequential", class),
        class,
        detail: format!("already in a sequential execution ({}): {}", scn.spec.class(), rest),
        replay: json!({"scenario": scn.to_json(), "choices": [], "sequential": true}),
    })
}

/// Hammer bursts want the cores for themselves (their whole point is true parallelism of four
/// threads); every other execution holds this gate shared, a hammer burst holds it exclusively.
/// Only timing is affected: no result depends on it.
static HAMMER_GATE: std::sync::RwLock<()> = std::sync::RwLock::new(());

struct Budget {
    scenarios: usize,
    schedules: usize,
    free_runs: usize,
    hammer_bursts: usize,
}

fn budget(tier: Tier) -> Budget {
    match tier {
        Tier::Quick => Budget { scenarios: driver::scale(640), schedules: 24, free_runs: 8, hammer_bursts: 6 },
        Tier::Thorough => Budget { scenarios: driver::scale(32000), schedules: 96, free_runs: 24, hammer_bursts: 12 },
    }
}

fn one_run(i: usize, run_seed: u64, b: &Budget) -> RunOut {
    let mut out = RunOut::default();
    let mut log = LogHash::new();
    let root = Prng::new(run_seed);
    let mut srng = root.fork("scenario");
    let mut built = None;
    let large = i % 64 == 33;
    let hammer = i % 64 == 17;
    for _ in 0..10 {
        let Some(scn) = (if large {
            gen_large_scenario(&mut srng, run_seed)
        } else if hammer {
            gen_hammer_scenario(&mut srng, run_seed)
        } else {
            gen_scenario(&mut srng, run_seed)
        }) else {
            continue;
        };
        let su = match setup(&scn) {
            Ok(su) => Arc::new(su),
            Err(e) => {
                if let Some(v) = sequential_violation(&scn, &e) {
                    out.violations.push(v);
                }
                out.count("skipped.setup", 1);
                continue;
            }
        };
        let rf = match reference(&scn, &su) {
            Ok(rf) => rf,
            Err(e) => {
                if let Some(v) = sequential_violation(&scn, &e) {
                    out.violations.push(v);
                }
                out.count("skipped.reference", 1);
                continue;
            }
        };
        built = Some((scn, su, rf));
        break;
    }
    let Some((scn, su, rf)) = built else {
        out.degenerate = true;
        return out;
    };
    let ref_total: usize = rf.outs.iter().map(|v| v.len()).sum();
    let ref_panics: usize = rf.outs.iter().flatten().filter(|o| matches!(o, OpOut::Panic(_))).count();
    out.count("reference.ops", ref_total as u64);
    out.count("reference.ops_panicking", ref_panics as u64);
    if ref_panics == ref_total {
        out.degenerate = true;
    }
    for ops in &scn.threads {
        for op in ops {
            out.count(&format!("ops.{}", op.kind()), 1);
        }
    }
    log.str(&scn.to_json().to_string());
    let mut schedrng = root.fork("sched");
    let mut evals = 0u64;
    let mut first_trace = None;
    let nsched = if large { 3 } else if hammer { 2 } else { b.schedules };
    if large {
        out.count("probe.large_ring_many_elements_scenario", 1);
    }
    if hammer {
        out.count("probe.hammer_scenario_free_running", 1);
    }
    for k in 0..nsched {
        let (strategy, sname) = draw_strategy(&mut schedrng, scn.threads.len(), rf.points as usize);
        let sseed = schedrng.next_u64();
        let _gate = HAMMER_GATE.read().unwrap_or_else(|e| e.into_inner());
        let ex = match execute(&scn, &su, &rf, strategy.clone(), sseed) {
            Ok(e) => e,
            Err(_) => {
                out.count("skipped.execute", 1);
                continue;
            }
        };
        evals += 1;
        let th = sched::trace_hash(&ex.trace);
        if ex.free_run {
            // supplementary real-parallel execution: judged like any other, but its trace is not part
            // of the deterministic event log
        } else if ex.nondeterministic {
            out.count("probe.baton_taken_from_thread_blocked_outside_model", 1);
            out.nondet = true;
        } else {
            log.u64(th);
            log.u64(ex.choices.len() as u64);
        }
        out.count(&format!("strategy.{}", sname), 1);
        out.count("sched_points", ex.trace.len() as u64);
        out.count("decisions", ex.choices.len() as u64);
        out.count("decisions_with_choice", ex.enabled_counts.iter().filter(|&&c| c > 1).count() as u64);
        probes(&ex.trace, &mut out);
        if !ex.free_run && sched::has_overlap(&ex.trace, scn.threads.len()) {
            out.distinct.push(prng::mix(th, util::h64(scn.to_json().to_string().as_bytes()), 0));
        }
        if !ex.free_run {
            out.distinct_in("schedules", prng::mix(th, util::h64(scn.to_json().to_string().as_bytes()), 1));
        }
        if let Some((class, part, detail)) = &ex.bad {
            out.violations.push(violation(&scn, &ex, class, part, detail));
            log.str(class);
        }
        if k == 0 {
            first_trace = Some((strategy_json(&strategy), ex.trace.clone(), ex.choices.clone()));
        }
    }
    // supplementary net: a burst of truly parallel executions of the same scenario (no baton), for
    // races inside synchronisation the lock wrapper cannot see; judged by the same oracle
    for _ in 0..(if large { 1 } else if hammer { b.hammer_bursts } else { b.free_runs }) {
        // nothing to add once the scenario has shown a violation (and a real deadlock costs a
        // stall timer per burst)
        if !out.violations.is_empty() {
            break;
        }
        let ex = if hammer {
            let _gate = HAMMER_GATE.write().unwrap_or_else(|e| e.into_inner());
            execute(&scn, &su, &rf, Strategy::FreeRun, 0)
        } else {
            let _gate = HAMMER_GATE.read().unwrap_or_else(|e| e.into_inner());
            execute(&scn, &su, &rf, Strategy::FreeRun, 0)
        };
        let Ok(ex) = ex else { continue };
        evals += 1;
        out.count("strategy.free-run", 1);
        if let Some((class, part, detail)) = &ex.bad {
            out.violations.push(violation(&scn, &ex, class, part, detail));
        }
    }
    out.count("evaluations", evals);
    out.log_hash = log.finish();
    if i % 61 == 0 || i < 2 {
        if let Some((s, t, c)) = first_trace {
            out.sample = Some(json!({"scenario": scn.to_json(), "strategy": s, "choices": c, "trace": sched::trace_json(&t)}));
        }
    }
    out
}

/// Rare-condition probes inferred from the trace.
fn probes(trace: &[TraceEv], out: &mut RunOut) {
    // "write phase found the cache already extended": a grow.write by thread A that follows another
    // thread's grow.write on the same lock after A's grow.read
    let mut last_write_by: std::collections::BTreeMap<usize, (usize, usize)> = Default::default();
    let mut read_seen: std::collections::BTreeMap<(usize, usize), usize> = Default::default();
    let mut fills: std::collections::BTreeMap<usize, u64> = Default::default();
    let mut readers_inside: std::collections::BTreeMap<usize, Vec<usize>> = Default::default();
    for (i, e) in trace.iter().enumerate() {
        match (e.what, e.site) {
            ("rel-r", _) => {
                read_seen.insert((e.tid, e.lock), i);
                if let Some(v) = readers_inside.get_mut(&e.lock) {
                    if let Some(p) = v.iter().position(|&t| t == e.tid) {
                        v.remove(p);
                    }
                }
            }
            ("acq-w", site) => {
                if let (Some(&r), Some(&(w, wt))) = (read_seen.get(&(e.tid, e.lock)), last_write_by.get(&e.lock)) {
                    if w > r && wt != e.tid {
                        out.count("probe.write_phase_after_foreign_update", 1);
                    }
                }
                last_write_by.insert(e.lock, (i, e.tid));
                if site == "galois.rs" {
                    *fills.entry(e.lock).or_insert(0) += 1;
                }
            }
            ("acq-r", _) => {
                readers_inside.entry(e.lock).or_default().push(e.tid);
            }
            ("enter-w", _) => {
                if readers_inside.get(&e.lock).map(|v| v.iter().any(|&t| t != e.tid)).unwrap_or(false) {
                    out.count("probe.writer_arrives_while_reader_inside", 1);
                }
            }
            _ => {}
        }
        if e.what == "acq-r" && readers_inside.get(&e.lock).map(|v| v.len() >= 2).unwrap_or(false) {
            out.count("probe.two_readers_overlap", 1);
        }
    }
    let dup: u64 = fills.values().map(|&c| c.saturating_sub(1)).sum();
    out.count("probe.galois_table_write_phases_beyond_first", dup);
}

pub fn run(tier: Tier, seed: u64) -> i32 {
    let b = budget(tier);
    let mut batch: Batch = driver::run_batch(PROP, seed, b.scenarios, 4, |i, s| one_run(i, s, &b));
    let evals = batch.counters.get("evaluations").copied().unwrap_or(0);
    let mut extra = serde_json::Map::new();
    extra.insert("scenarios".into(), json!(batch.runs - batch.degenerate));
    extra.insert("simulated_time".into(), json!({"unit": "logical scheduling points (the code under test reads no clock)", "events": batch.counters.get("sched_points").copied().unwrap_or(0)}));
    extra.insert("distinct_interleavings".into(), json!(batch.distinct_by.get("schedules").map(|s| s.len()).unwrap_or(0)));
    let rep = Report {
        prop: PROP.into(),
        tier,
        seed,
        level: "exploration",
        rule: "seeded scenarios (scheme, N in {8,16,32}, 2-4 primes, 2-4 threads x 1-3 calls among decrypt of sizes 2..6, noise budget, relin/public/Galois/key-switching key generation, apply_galois on ciphertexts and plaintexts, encrypt) x seeded schedules (uniform, sticky, PCT-style, stall-a-writer) under a reader- or writer-preferring RwLock model; plus, per scenario, a burst of free-running (truly parallel, not schedule-controlled) executions, and one scenario in 64 is a 'hammer' (4 threads x 100..20000 repetitions of one kind of call with per-thread arguments, free-running with the cores to itself) for state shared without any lock. evaluations = executed schedules. distinct_nontrivial = distinct (scenario, schedule trace) pairs in which two different threads had overlapping activity windows on the same lock".into(),
        assumptions: vec![
            "between two lock events a thread touches only private data, immutable shared data, or data protected by the lock it holds (data-race-free code): interleaving at lock events reaches every observable behaviour".into(),
            "RwLock fairness is modelled as either reader- or writer-preferring; starvation is not modelled".into(),
            "results of randomized calls are compared under a per-thread deterministic entropy stream (verif_hooks seam)".into(),
        ],
        components: json!({"real": ["Decryptor, KeyGenerator, Evaluator, Encryptor, HeContext, GaloisTool (all heathcliff code, real std::sync::RwLock)"],
                            "stub": ["OS thread scheduling decisions (baton scheduler; OS threads are carriers only)", "OS entropy (per-thread seeded provider)"]}),
        extra,
    };
    batch.runs = evals.max(1) as usize;
    driver::finish(rep, &batch, &minimise, &crate::replay_fresh)
}

fn parse_replay(r: &Value) -> Option<(Scn, Vec<u8>)> {
    let scn = Scn::from_json(&r["scenario"])?;
    let choices = r["choices"].as_array()?.iter().map(|x| x.as_u64().map(|y| y as u8)).collect::<Option<Vec<_>>>()?;
    Some((scn, choices))
}

fn try_forced(scn: &Scn, choices: &[u8], strict: bool) -> Option<Exec> {
    let su = Arc::new(setup(scn).ok()?);
    let rf = reference(scn, &su).ok()?;
    execute(scn, &su, &rf, Strategy::Forced { choices: choices.to_vec(), strict }, 0).ok()
}

/// Shrink scenario (drop threads / calls) and schedule (remove pre-emptions) while the same
/// violation class persists.
fn minimise(v: &Violation) -> Violation {
    if v.replay["sequential"].as_bool() == Some(true) {
        return v.clone();
    }
    let Some((mut scn, mut choices)) = parse_replay(&v.replay) else { return v.clone() };
    let same_class = |ex: &Exec| ex.bad.as_ref().map(|(c, _, _)| *c == v.class).unwrap_or(false);
    // minimisation is bounded in wall-clock time: a large scenario costs a second per execution
    let deadline = std::time::Instant::now() + std::time::Duration::from_secs(90);
    let total_ops: usize = scn.threads.iter().map(|t| t.len()).sum();
    let retries = if total_ops > 40 { 12 } else { 300 };
    let find = |scn: &Scn, hint: &[u8]| -> Option<Exec> {
        if scn.threads.len() < 2 || std::time::Instant::now() > deadline {
            return None;
        }
        let su = Arc::new(setup(scn).ok()?);
        let rf = reference(scn, &su).ok()?;
        if let Ok(ex) = execute(scn, &su, &rf, Strategy::Forced { choices: hint.to_vec(), strict: false }, 0) {
            if same_class(&ex) {
                return Some(ex);
            }
        }
        let mut r = Prng::new(0xD1CE);
        for _ in 0..retries {
            if std::time::Instant::now() > deadline {
                return None;
            }
            let (s, _) = draw_strategy(&mut r, scn.threads.len(), rf.points as usize);
            if let Ok(ex) = execute(scn, &su, &rf, s, r.next_u64()) {
                if same_class(&ex) {
                    return Some(ex);
                }
            }
        }
        None
    };
    let Some(mut best) = find(&scn, &choices) else { return v.clone() };
    choices = best.choices.clone();
    // 1. drop whole threads, then single calls
    let mut progress = true;
    while progress {
        progress = false;
        for t in 0..scn.threads.len() {
            if scn.threads.len() <= 2 {
                break;
            }
            let mut c = scn.clone();
            c.threads.remove(t);
            if let Some(ex) = find(&c, &[]) {
                scn = c;
                choices = ex.choices.clone();
                best = ex;
                progress = true;
                break;
            }
        }
        if progress {
            continue;
        }
        // halve long call lists before trying single calls
        for t in 0..scn.threads.len() {
            if scn.threads[t].len() >= 8 && std::time::Instant::now() < deadline {
                let half = scn.threads[t].len() / 2;
                for keep_front in [true, false] {
                    let mut c = scn.clone();
                    if keep_front { c.threads[t].truncate(half) } else { c.threads[t].drain(..half); }
                    if let Some(ex) = find(&c, &[]) {
                        scn = c;
                        choices = ex.choices.clone();
                        best = ex;
                        progress = true;
                        break;
                    }
                }
            }
        }
        if progress {
            continue;
        }
        'ops: for t in 0..scn.threads.len() {
            if std::time::Instant::now() > deadline {
                break;
            }
            for o in 0..scn.threads[t].len() {
                if scn.threads[t].len() <= 1 {
                    continue;
                }
                let mut c = scn.clone();
                c.threads[t].remove(o);
                if let Some(ex) = find(&c, &[]) {
                    scn = c;
                    choices = ex.choices.clone();
                    best = ex;
                    progress = true;
                    break 'ops;
                }
            }
        }
    }
    // 2. remove pre-emptions one at a time
    let mut i = 1;
    let mut guard = 0;
    while i < choices.len() && guard < 400 && std::time::Instant::now() < deadline {
        guard += 1;
        if choices[i] != choices[i - 1] {
            let mut c = choices.clone();
            c[i] = c[i - 1];
            c.truncate(i + 1);
            if let Some(ex) = try_forced(&scn, &c, false) {
                if same_class(&ex) && ex.choices.len() <= choices.len() + 4 {
                    let switches = |v: &[u8]| v.windows(2).filter(|w| w[0] != w[1]).count();
                    if switches(&ex.choices) < switches(&choices) {
                        choices = ex.choices.clone();
                        best = ex;
                        i = 1;
                        continue;
                    }
                }
            }
        }
        i += 1;
    }
    let (class, part, detail) = best.bad.clone().unwrap();
    violation(&scn, &best, &class, &part, &detail)
}

pub fn replay(doc: &Value) -> i32 {
    let Some((scn, choices)) = parse_replay(&doc["replay"]) else {
        eprintln!("replay file malformed");
        return 2;
    };
    // violations that already show sequentially surface while building setup / reference
    let seq_err = match setup(&scn) {
        Err(e) => Some(e),
        Ok(su) => reference(&scn, &Arc::new(su)).err(),
    };
    if let Some(e) = seq_err {
        if let Some(v) = sequential_violation(&scn, &e) {
            println!("VIOLATION property={} replay={}", PROP, doc["__path"].as_str().unwrap_or("?"));
            println!("  class={} {}", v.class, v.detail);
            return 1;
        }
    }
    if doc["replay"]["free_run"].as_bool() == Some(true) {
        // found under real parallelism (supplementary mode): no schedule to force; search again
        let su = match setup(&scn) { Ok(s) => Arc::new(s), Err(e) => { eprintln!("replay diverged: {}", e); return 2; } };
        let rf = match reference(&scn, &su) { Ok(r) => r, Err(e) => { eprintln!("replay diverged: {}", e); return 2; } };
        let mut r = Prng::new(0xF5EE);
        for attempt in 0..2000 {
            let strat = if attempt % 2 == 0 { Strategy::FreeRun } else { draw_strategy(&mut r, scn.threads.len(), rf.points as usize).0 };
            if let Ok(ex) = execute(&scn, &su, &rf, strat, r.next_u64()) {
                if let Some((class, _p, detail)) = ex.bad {
                    println!("VIOLATION property={} replay={}", PROP, doc["__path"].as_str().unwrap_or("?"));
                    println!("  class={} (re-found in attempt {}) {}", class, attempt, detail);
                    return 1;
                }
            }
        }
        println!("{} replay: a violation found under real parallelism did not show again in 2000 executions", PROP);
        return 0;
    }
    let Some(ex) = try_forced(&scn, &choices, true) else {
        eprintln!("replay diverged: scenario no longer builds");
        return 2;
    };
    if ex.diverged {
        eprintln!("replay diverged: a forced scheduling choice was not enabled (code under test changed its synchronization behaviour)");
        return 2;
    }
    match ex.bad {
        Some((class, _part, detail)) => {
            println!("VIOLATION property={} replay={}", PROP, doc["__path"].as_str().unwrap_or("?"));
            println!("  class={} {}", class, detail);
            1
        }
        None => {
            println!("{} replay: property held on this schedule ({} decisions)", PROP, ex.choices.len());
            0
        }
    }
}
