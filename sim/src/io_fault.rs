//! I/O fault world: in-memory Write/Read implementations that follow a script.
//! All behaviours are legal under the std::io contracts (short accepts, short reads,
//! `Interrupted`, `Ok(0)`, hard errors, early EOF).

use crate::prng::Prng;
use serde_json::{json, Value};
use std::io::{self, Read, Write};

#[derive(Clone, Copy, Debug, PartialEq, Eq)]
pub enum Step {
    /// Accept / deliver at most this many bytes in this call (0 = no limit).
    Limit(usize),
    /// Return Err(Interrupted) for this call (transient).
    Interrupted,
    /// Writer only: return Ok(0) for this call.
    Zero,
    /// Return Err(WouldBlock) for this call, consuming nothing; later calls proceed (a non-blocking
    /// descriptor that is momentarily not ready, a timeout that clears).
    Transient,
}

#[derive(Clone, Debug, PartialEq, Eq, Default)]
pub struct Script {
    pub steps: Vec<Step>,
    /// After the listed steps: cycle through them again (true) or behave unlimited (false).
    pub cycle: bool,
    /// Hard error when the stream position equals this offset and more bytes are requested.
    pub fail_at: Option<usize>,
    /// Reader only: the stream ends (EOF) at this offset.
    pub eof_at: Option<usize>,
}

impl Script {
    pub fn clean() -> Self {
        Script::default()
    }
    pub fn to_json(&self) -> Value {
        let steps: Vec<Value> = self
            .steps
            .iter()
            .map(|s| match s {
                Step::Limit(n) => json!(n),
                Step::Interrupted => json!("EINTR"),
                Step::Zero => json!("ZERO"),
                Step::Transient => json!("EAGAIN"),
            })
            .collect();
        json!({"steps": steps, "cycle": self.cycle, "fail_at": self.fail_at, "eof_at": self.eof_at})
    }
    pub fn from_json(v: &Value) -> Option<Self> {
        let mut steps = Vec::new();
        for s in v["steps"].as_array()? {
            if let Some(n) = s.as_u64() {
                steps.push(Step::Limit(n as usize));
            } else {
                match s.as_str()? {
                    "EINTR" => steps.push(Step::Interrupted),
                    "ZERO" => steps.push(Step::Zero),
                    "EAGAIN" => steps.push(Step::Transient),
                    _ => return None,
                }
            }
        }
        Some(Script {
            steps,
            cycle: v["cycle"].as_bool().unwrap_or(false),
            fail_at: v["fail_at"].as_u64().map(|x| x as usize),
            eof_at: v["eof_at"].as_u64().map(|x| x as usize),
        })
    }

    /// PRNG-drawn fragmentation pattern. `zero` allows Ok(0) steps (writer side).
    pub fn draw(rng: &mut Prng, zero: bool) -> Self {
        let style = rng.below(6);
        let mut steps = Vec::new();
        let len = match style {
            0 => 0,
            1 => 1,
            _ => rng.range(2, 24),
        };
        let fixed = rng.range(1, 8);
        for _ in 0..len {
            let r = rng.below(20);
            if r == 0 {
                steps.push(Step::Interrupted);
            } else if r == 1 && zero {
                steps.push(Step::Zero);
            } else if style == 2 {
                steps.push(Step::Limit(fixed));
            } else if r < 4 {
                steps.push(Step::Limit(0));
            } else {
                steps.push(Step::Limit(rng.range(1, 8)));
            }
        }
        Script { steps, cycle: style >= 2 && rng.chance(3, 4), fail_at: None, eof_at: None }
    }

    /// As `draw`, and in half of the scripts one or two calls fail with a transient WouldBlock.
    /// (Kept out of `draw`: the C14 / C18 transports only use behaviours under which a transfer
    /// must succeed.)
    pub fn draw_with_transient(rng: &mut Prng, zero: bool) -> Self {
        let mut s = Script::draw(rng, zero);
        if rng.coin() {
            for _ in 0..rng.range(1, 2) {
                let at = rng.usize_below(s.steps.len() + 1);
                s.steps.insert(at, Step::Transient);
            }
        }
        s
    }

    fn next(&self, call: usize) -> Step {
        if self.steps.is_empty() {
            return Step::Limit(0);
        }
        if call < self.steps.len() {
            self.steps[call]
        } else if self.cycle {
            // never cycle onto an endless run of Zero/Interrupted: those stay one-shot
            match self.steps[call % self.steps.len()] {
                Step::Limit(n) => Step::Limit(n),
                _ => Step::Limit(0),
            }
        } else {
            Step::Limit(0)
        }
    }
}

/// What actually happened inside the operation (a fault scheduled after the operation
/// finished never shows up here).
#[derive(Clone, Debug, Default)]
pub struct Fired {
    pub calls: usize,
    pub short: usize,
    pub interrupted: usize,
    pub zero: usize,
    pub hard_error: usize,
    pub eof: usize,
    pub transient: usize,
}

pub struct FaultyWriter {
    pub sink: Vec<u8>,
    script: Script,
    call: usize,
    pub fired: Fired,
}

impl FaultyWriter {
    pub fn new(script: Script) -> Self {
        FaultyWriter { sink: Vec::new(), script, call: 0, fired: Fired::default() }
    }
}

impl Write for FaultyWriter {
    fn write(&mut self, buf: &[u8]) -> io::Result<usize> {
        if buf.is_empty() {
            return Ok(0);
        }
        self.fired.calls += 1;
        let pos = self.sink.len();
        if self.script.fail_at == Some(pos) {
            self.fired.hard_error += 1;
            return Err(io::Error::new(io::ErrorKind::Other, "simulated device error"));
        }
        let step = self.script.next(self.call);
        self.call += 1;
        match step {
            Step::Interrupted => {
                self.fired.interrupted += 1;
                Err(io::Error::new(io::ErrorKind::Interrupted, "simulated EINTR"))
            }
            Step::Zero => {
                self.fired.zero += 1;
                Ok(0)
            }
            Step::Transient => {
                self.fired.transient += 1;
                Err(io::Error::new(io::ErrorKind::WouldBlock, "simulated EAGAIN"))
            }
            Step::Limit(m) => {
                let mut n = buf.len();
                if m > 0 {
                    n = n.min(m);
                }
                if let Some(f) = self.script.fail_at {
                    if f > pos {
                        n = n.min(f - pos);
                    }
                }
                if n < buf.len() {
                    self.fired.short += 1;
                }
                self.sink.extend_from_slice(&buf[..n]);
                Ok(n)
            }
        }
    }
    fn flush(&mut self) -> io::Result<()> {
        Ok(())
    }
}

pub struct FaultyReader<'a> {
    data: &'a [u8],
    pub pos: usize,
    script: Script,
    call: usize,
    pub fired: Fired,
}

impl<'a> FaultyReader<'a> {
    pub fn new(data: &'a [u8], script: Script) -> Self {
        FaultyReader { data, pos: 0, script, call: 0, fired: Fired::default() }
    }
}

impl<'a> Read for FaultyReader<'a> {
    fn read(&mut self, buf: &mut [u8]) -> io::Result<usize> {
        if buf.is_empty() {
            return Ok(0);
        }
        self.fired.calls += 1;
        let end = self.script.eof_at.map(|e| e.min(self.data.len())).unwrap_or(self.data.len());
        if self.script.fail_at == Some(self.pos) {
            self.fired.hard_error += 1;
            return Err(io::Error::new(io::ErrorKind::Other, "simulated device error"));
        }
        if self.pos >= end {
            self.fired.eof += 1;
            return Ok(0);
        }
        let step = self.script.next(self.call);
        self.call += 1;
        match step {
            Step::Interrupted => {
                self.fired.interrupted += 1;
                Err(io::Error::new(io::ErrorKind::Interrupted, "simulated EINTR"))
            }
            Step::Transient => {
                self.fired.transient += 1;
                Err(io::Error::new(io::ErrorKind::WouldBlock, "simulated EAGAIN"))
            }
            Step::Zero | Step::Limit(_) => {
                let m = if let Step::Limit(m) = step { m } else { 0 };
                let mut n = buf.len().min(end - self.pos);
                if m > 0 {
                    n = n.min(m);
                }
                if let Some(f) = self.script.fail_at {
                    if f > self.pos {
                        n = n.min(f - self.pos);
                    }
                }
                if n < buf.len() {
                    self.fired.short += 1;
                }
                buf[..n].copy_from_slice(&self.data[self.pos..self.pos + n]);
                self.pos += n;
                Ok(n)
            }
        }
    }
}
