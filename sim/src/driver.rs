//! Parallel run driver (results keyed by run index, so output is independent of the
//! worker count), violation bookkeeping, known-findings file, evidence writer.

use crate::prng;
use serde_json::{json, Map, Value};
use std::collections::{BTreeMap, BTreeSet};
use std::sync::atomic::{AtomicUsize, Ordering};
use std::sync::Mutex;
use std::time::Instant;

pub const DEFAULT_SEED: u64 = 20261002;

#[derive(Clone, Copy, PartialEq, Eq, Debug)]
pub enum Tier {
    Quick,
    Thorough,
}

impl Tier {
    pub fn name(self) -> &'static str {
        match self {
            Tier::Quick => "quick",
            Tier::Thorough => "thorough",
        }
    }
}

/// Budget divisor for self-tests (HESIM_RUNS_DIV), default 1.
pub fn scale(n: usize) -> usize {
    let d = std::env::var("HESIM_RUNS_DIV").ok().and_then(|s| s.parse::<usize>().ok()).unwrap_or(1).max(1);
    (n / d).max(1)
}

/// Isolation mode (HESIM_ONLY_RUN=<index>): execute exactly one run of the batch.
pub fn only_run() -> Option<usize> {
    std::env::var("HESIM_ONLY_RUN").ok().and_then(|s| s.parse().ok())
}

/// Directory where each worker notes which run it is executing, so that a supervisor can tell
/// which runs were in flight when the process died (allocation failure, stack overflow, abort).
pub fn inflight_dir(pid: u32) -> std::path::PathBuf {
    verif_dir().join("replays").join(format!(".inflight-{}", pid))
}

pub fn workers() -> usize {
    std::env::var("HESIM_WORKERS").ok().and_then(|s| s.parse().ok()).unwrap_or(16).max(1)
}

/// A property violation found in one run.
#[derive(Clone, Debug)]
pub struct Violation {
    /// Stable identifier of *what* fails (used to match the known-findings file),
    /// e.g. "decrypt/BGV/n2". Must not contain whitespace.
    pub key: String,
    /// Violation class, preserved by the minimiser (e.g. "silent-truncation", "panic").
    pub class: String,
    /// Human readable description with observed vs expected.
    pub detail: String,
    /// Fully expanded scenario + decision trace; replaying it reproduces the violation.
    pub replay: Value,
}

/// What one simulated run reports back.
#[derive(Default)]
pub struct RunOut {
    /// Digest of the run's full event log (determinism self-test compares these).
    pub log_hash: u64,
    /// Named counters (fault kinds fired, probes hit, events simulated, ...).
    pub counters: BTreeMap<String, u64>,
    /// Hashes of the distinct non-trivial cases this run covered.
    pub distinct: Vec<u64>,
    /// Secondary distinct measures, by name.
    pub distinct_by: BTreeMap<String, Vec<u64>>,
    pub violations: Vec<Violation>,
    pub sample: Option<Value>,
    /// The run could not produce a non-trivial case (generator redraw exhausted etc.).
    pub degenerate: bool,
    /// The run was valid but not exactly repeatable (the baton had to be taken from a thread
    /// blocked outside the lock model); excluded from the determinism re-check.
    pub nondet: bool,
}

impl RunOut {
    pub fn count(&mut self, name: &str, n: u64) {
        if n > 0 {
            *self.counters.entry(name.to_string()).or_insert(0) += n;
        }
    }
    pub fn distinct_in(&mut self, set: &str, h: u64) {
        self.distinct_by.entry(set.to_string()).or_default().push(h);
    }
}

/// Aggregated batch result.
pub struct Batch {
    pub runs: usize,
    pub log_hashes: Vec<u64>,
    pub counters: BTreeMap<String, u64>,
    pub distinct: BTreeSet<u64>,
    pub distinct_by: BTreeMap<String, BTreeSet<u64>>,
    pub violations: Vec<(usize, Violation)>,
    pub samples: Vec<Value>,
    pub degenerate: usize,
    pub nondet_runs: Vec<bool>,
    pub wall_s: f64,
    /// determinism re-check: (runs executed a second time, runs whose event-log hash differed)
    pub recheck: (usize, usize),
}

static VIOLATING_RUNS: AtomicUsize = AtomicUsize::new(0);
const EARLY_STOP_AFTER: usize = 400;

/// Execute `n` runs on the worker pool. `f(run_index, run_seed)` must be a pure function
/// of its arguments (and of the code under test).
pub fn run_batch<F>(prop: &str, seed: u64, n: usize, max_samples: usize, f: F) -> Batch
where
    F: Fn(usize, u64) -> RunOut + Sync,
{
    let t0 = Instant::now();
    let next = AtomicUsize::new(0);
    let results: Mutex<Vec<Option<RunOut>>> = Mutex::new((0..n).map(|_| None).collect());
    let w = workers().min(n.max(1));
    let pid = prng::hash_label(0, prop);
    let only = only_run();
    let crumbs = inflight_dir(std::process::id());
    // violations listed as known findings never count towards the early stop (a different
    // violation of the same property must still be searched for)
    let known = KnownFindings::load();
    let known = &known;
    let _ = std::fs::create_dir_all(&crumbs);
    std::thread::scope(|s| {
        for wk in 0..w {
            let crumb = crumbs.join(format!("w{}", wk));
            let crumbs_dir = crumbs.clone();
            let next = &next;
            let results = &results;
            let f = &f;
            s.spawn(move || loop {
                let i = next.fetch_add(1, Ordering::Relaxed);
                if i >= n {
                    let _ = std::fs::remove_file(&crumb);
                    break;
                }
                // enough is enough: a failing check need not finish its budget (each further failing
                // run may cost a stall timer); which runs get skipped depends on timing, but the
                // batch is failing anyway and every reported violation has its own replay file
                if VIOLATING_RUNS.load(Ordering::SeqCst) >= EARLY_STOP_AFTER {
                    results.lock().unwrap()[i] = Some(RunOut { degenerate: true, ..Default::default() });
                    continue;
                }
                if let Some(k) = only {
                    if i != k {
                        results.lock().unwrap()[i] = Some(RunOut { degenerate: true, ..Default::default() });
                        continue;
                    }
                }
                let _ = std::fs::write(&crumb, i.to_string());
                let run_seed = prng::mix(seed, pid, i as u64);
                // a panic that escapes a run's own capture means the library handed back something the
                // judging code considers structurally impossible: report it, do not die of it
                // every run gets a fresh OS thread: whatever the code under test keeps in thread-local
                // storage cannot travel from one run to the next, so a run stays a pure function of
                // (index, seed) even for code that has such state
                let joined = std::thread::scope(|s2| s2.spawn(|| crate::util::catch_res(|| f(i, run_seed))).join());
                let res = match joined {
                    Ok(r) => r,
                    Err(_) => Err("the run's thread died".to_string()),
                };
                let out = match res {
                    Ok(o) => o,
                    Err(msg) => {
                        let mut o = RunOut::default();
                        o.violations.push(Violation {
                            key: "panic-while-judging".into(),
                            class: "panic-while-judging".into(),
                            detail: format!("run {} panicked outside the captured library calls: {}", i, msg),
                            replay: serde_json::json!({"abort_run": i, "tier": std::env::var("VERIF_TIER_EFFECTIVE").unwrap_or_else(|_| "quick".into())}),
                        });
                        o
                    }
                };
                if out.violations.iter().any(|v| known.matches(prop, &v.key).is_none()) {
                    // leave a trace on disk at once: should the batch be stopped by the wall-clock guard
                    // (a deadlocking change makes every affected scenario wait for its stall timer), the
                    // supervisor still reports what was found
                    VIOLATING_RUNS.fetch_add(1, Ordering::SeqCst);
                    if let Ok(mut f) = std::fs::OpenOptions::new().create(true).append(true).open(crumbs_dir.join("found.jsonl")) {
                        use std::io::Write;
                        for v in out.violations.iter().filter(|v| known.matches(prop, &v.key).is_none()).take(4) {
                            let _ = writeln!(f, "{}", serde_json::json!({"run": i, "key": v.key, "class": v.class, "detail": v.detail, "replay": v.replay}));
                        }
                    }
                }
                results.lock().unwrap()[i] = Some(out);
            });
        }
    });
    let _ = std::fs::remove_dir_all(&crumbs);
    let results = results.into_inner().unwrap();
    let mut b = Batch {
        runs: n,
        log_hashes: Vec::with_capacity(n),
        counters: BTreeMap::new(),
        distinct: BTreeSet::new(),
        distinct_by: BTreeMap::new(),
        violations: Vec::new(),
        samples: Vec::new(),
        degenerate: 0,
        nondet_runs: Vec::with_capacity(n),
        wall_s: 0.0,
        recheck: (0, 0),
    };
    for (i, r) in results.into_iter().enumerate() {
        let r = r.expect("run result missing");
        b.log_hashes.push(r.log_hash);
        b.nondet_runs.push(r.nondet);
        for (k, v) in r.counters {
            *b.counters.entry(k).or_insert(0) += v;
        }
        b.distinct.extend(r.distinct);
        for (k, v) in r.distinct_by {
            b.distinct_by.entry(k).or_default().extend(v);
        }
        for v in r.violations {
            b.violations.push((i, v));
        }
        if let Some(s) = r.sample {
            if b.samples.len() < max_samples {
                b.samples.push(s);
            }
        }
        if r.degenerate {
            b.degenerate += 1;
        }
    }
    // determinism re-check: execute about 2% of the runs a second time and compare event-log hashes
    let again: Vec<usize> = if only.is_some() { Vec::new() } else { (0..n).filter(|i| i % 50 == 7 % n.max(1) || n < 50 && *i == 0).collect() };
    let mism = AtomicUsize::new(0);
    let next2 = AtomicUsize::new(0);
    std::thread::scope(|s| {
        for _ in 0..w {
            s.spawn(|| loop {
                let k = next2.fetch_add(1, Ordering::Relaxed);
                if k >= again.len() {
                    break;
                }
                let i = again[k];
                let out = f(i, prng::mix(seed, pid, i as u64));
                if out.nondet || b.nondet_runs[i] {
                    continue;
                }
                if out.log_hash != b.log_hashes[i] {
                    mism.fetch_add(1, Ordering::Relaxed);
                }
            });
        }
    });
    b.recheck = (again.len(), mism.load(Ordering::Relaxed));
    b.wall_s = t0.elapsed().as_secs_f64();
    b
}

impl Batch {
    pub fn merge(&mut self, other: Batch) {
        let base = self.runs;
        self.runs += other.runs;
        self.log_hashes.extend(other.log_hashes);
        self.nondet_runs.extend(other.nondet_runs);
        for (k, v) in other.counters {
            *self.counters.entry(k).or_insert(0) += v;
        }
        self.distinct.extend(other.distinct);
        for (k, v) in other.distinct_by {
            self.distinct_by.entry(k).or_default().extend(v);
        }
        for (i, v) in other.violations {
            self.violations.push((base + i, v));
        }
        self.samples.extend(other.samples);
        self.degenerate += other.degenerate;
        self.wall_s += other.wall_s;
        self.recheck = (self.recheck.0 + other.recheck.0, self.recheck.1 + other.recheck.1);
    }
}

// ---------------------------------------------------------------------------------------
// Known findings

pub struct KnownFindings {
    /// (property, key, text)
    pub open: Vec<(String, String, String)>,
}

pub fn verif_dir() -> std::path::PathBuf {
    if let Ok(d) = std::env::var("VERIF_DIR") {
        return d.into();
    }
    // the binary lives in <verif>/sim/target/release/hesim
    let exe = std::env::current_exe().unwrap_or_default();
    let mut p = exe.clone();
    for _ in 0..4 {
        p.pop();
    }
    if p.join("properties.jsonl").exists() {
        p
    } else {
        "/verif".into()
    }
}

impl KnownFindings {
    /// File format (committed, never written at run time):
    ///   KNOWN-FINDING: property=<id> key=<key> <what fails>
    ///   fixed: property=<id> <commit> <what failed>       (suppresses nothing)
    pub fn load() -> Self {
        let path = verif_dir().join("known_findings.txt");
        let mut open = Vec::new();
        if let Ok(text) = std::fs::read_to_string(path) {
            for line in text.lines() {
                let line = line.trim();
                if let Some(rest) = line.strip_prefix("KNOWN-FINDING:") {
                    let mut prop = String::new();
                    let mut key = String::new();
                    let mut words = Vec::new();
                    for w in rest.split_whitespace() {
                        if let Some(p) = w.strip_prefix("property=") {
                            prop = p.to_string();
                        } else if let Some(k) = w.strip_prefix("key=") {
                            key = k.to_string();
                        } else {
                            words.push(w);
                        }
                    }
                    if !prop.is_empty() && !key.is_empty() {
                        open.push((prop, key, words.join(" ")));
                    }
                }
            }
        }
        KnownFindings { open }
    }
    pub fn matches(&self, prop: &str, key: &str) -> Option<&str> {
        self.open.iter().find(|(p, k, _)| p == prop && k == key).map(|(_, _, t)| t.as_str())
    }
}

// ---------------------------------------------------------------------------------------
// Reporting

pub struct Report {
    pub prop: String,
    pub tier: Tier,
    pub seed: u64,
    pub level: &'static str,
    pub rule: String,
    pub assumptions: Vec<String>,
    pub components: Value,
    pub extra: Map<String, Value>,
}

/// Write the replay file for a violation, return its path.
pub fn write_replay(prop: &str, seed: u64, run: usize, v: &Violation) -> String {
    let dir = verif_dir().join("replays");
    let _ = std::fs::create_dir_all(&dir);
    let safe_key: String = v.key.chars().map(|c| if c.is_ascii_alphanumeric() || c == '-' { c } else { '_' }).collect();
    let path = dir.join(format!("{}-{}-{}-{}.json", prop, seed, run, safe_key));
    let doc = json!({
        "property": prop,
        "verif_seed": seed,
        "run": run,
        "tier": std::env::var("VERIF_TIER_EFFECTIVE").unwrap_or_else(|_| "quick".into()),
        "key": v.key,
        "class": v.class,
        "detail": v.detail,
        "replay": v.replay,
    });
    std::fs::write(&path, serde_json::to_string_pretty(&doc).unwrap()).expect("cannot write replay file");
    path.to_string_lossy().into_owned()
}

/// Finish a check: print known findings / violations, write evidence, return the exit code.
/// `minimise` receives a violation and returns a (possibly) smaller one of the same class.
pub fn finish(
    rep: Report,
    batch: &Batch,
    minimise: &dyn Fn(&Violation) -> Violation,
    replay_fresh: &dyn Fn(&str) -> Option<bool>,
) -> i32 {
    if only_run().is_some() {
        // isolation mode: report what this single run found, nothing else
        let mut code = 0;
        for (i, v) in &batch.violations {
            let path = write_replay(&rep.prop, rep.seed, *i, v);
            println!("VIOLATION property={} replay={}", rep.prop, path);
            println!("  key={} class={} {}", v.key, v.class, v.detail);
            code = 1;
        }
        return code;
    }
    let known = KnownFindings::load();
    let mut by_key: BTreeMap<String, (usize, Violation, usize)> = BTreeMap::new();
    for (i, v) in &batch.violations {
        by_key.entry(v.key.clone()).and_modify(|e| e.2 += 1).or_insert((*i, v.clone(), 1));
    }
    let mut exit = 0;
    let mut reported = Vec::new();
    let mut known_hit = Vec::new();
    let mut new_keys = 0;
    for (key, (run, v, count)) in &by_key {
        if let Some(text) = known.matches(&rep.prop, key) {
            println!("KNOWN-FINDING: property={} key={} {} (seen in {} runs)", rep.prop, key, text, count);
            known_hit.push(json!({"key": key, "runs": count}));
            continue;
        }
        exit = 1;
        new_keys += 1;
        // beyond 8 distinct keys: still reported with a replay file, but not minimised / re-run
        // a minimiser that panics (it re-executes the failing case) must not take the report down
        let small = if new_keys > 8 { v.clone() } else { crate::util::catch_res(|| minimise(v)).unwrap_or_else(|_| v.clone()) };
        let path = write_replay(&rep.prop, rep.seed, *run, &small);
        let fresh = if new_keys > 8 { None } else { replay_fresh(&path) };
        println!("VIOLATION property={} replay={}", rep.prop, path);
        println!("  key={} class={} runs={} fresh-process-replay={}", key, small.class, count,
            match fresh { Some(true) => "reproduced", Some(false) => "NOT-reproduced", None => "skipped" });
        println!("  {}", small.detail.replace('\n', "\n  "));
        reported.push(json!({"key": key, "class": small.class, "replay": path, "runs": count, "detail": small.detail}));
    }

    // evidence
    let mut cov = Map::new();
    cov.insert("evaluations".into(), json!(batch.runs));
    cov.insert("distinct_nontrivial".into(), json!(batch.distinct.len()));
    cov.insert("rule".into(), json!(rep.rule));
    cov.insert("samples".into(), Value::Array(batch.samples.clone()));
    let hours = (batch.wall_s / 3600.0).max(1e-9);
    cov.insert("runs_per_hour".into(), json!((batch.runs as f64 / hours).round()));
    cov.insert("seeds_per_hour".into(), json!((batch.runs as f64 / hours).round()));
    cov.insert("degenerate_runs".into(), json!(batch.degenerate));
    let mut counters = Map::new();
    for (k, v) in &batch.counters {
        counters.insert(k.clone(), json!(v));
    }
    cov.insert("counters".into(), Value::Object(counters));
    let mut dby = Map::new();
    for (k, v) in &batch.distinct_by {
        dby.insert(k.clone(), json!(v.len()));
    }
    cov.insert("distinct_by".into(), Value::Object(dby));
    let zero: Vec<String> = batch
        .counters
        .iter()
        .filter(|(k, v)| k.starts_with("probe.") && **v == 0)
        .map(|(k, _)| k.clone())
        .collect();
    cov.insert("unreached_probes".into(), json!(zero));
    cov.insert("components".into(), rep.components.clone());
    cov.insert("workers".into(), json!(workers()));
    let log_digest = crate::util::h64_u64s(&batch.log_hashes);
    cov.insert("log_digest".into(), json!(format!("{:016x}", log_digest)));
    cov.insert("determinism_recheck".into(), json!({"runs_executed_twice": batch.recheck.0, "log_hash_mismatches": batch.recheck.1,
        "runs_not_exactly_repeatable": batch.nondet_runs.iter().filter(|x| **x).count()}));
    cov.insert("known_findings_hit".into(), Value::Array(known_hit));
    cov.insert("violations_reported".into(), Value::Array(reported));
    for (k, v) in rep.extra {
        cov.insert(k, v);
    }
    let ev = json!({
        "property_id": rep.prop,
        "tier": rep.tier.name(),
        "seed": rep.seed,
        "level": rep.level,
        "coverage": Value::Object(cov),
        "assumptions": rep.assumptions,
        "wall_s": (batch.wall_s * 1000.0).round() / 1000.0,
        "violations": by_key.len(),
    });
    let dir = verif_dir().join("evidence");
    let _ = std::fs::create_dir_all(&dir);
    let path = dir.join(format!("{}.json", rep.prop));
    std::fs::write(&path, serde_json::to_string_pretty(&ev).unwrap()).expect("cannot write evidence");
    let nondet = batch.nondet_runs.iter().filter(|x| **x).count();
    println!("log_digest={:016x} recheck={}/{} mismatches nondet_runs={}", log_digest, batch.recheck.1, batch.recheck.0, nondet);
    if batch.recheck.1 > 0 {
        eprintln!("harness warning: {} of {} re-executed runs produced a different event log", batch.recheck.1, batch.recheck.0);
        if exit == 0 {
            eprintln!("harness error: the simulator is not deterministic on a tree where the property held");
            return 2;
        }
    }
    println!(
        "{} tier={} seed={} runs={} distinct_nontrivial={} violations={} wall={:.1}s evidence={}",
        rep.prop,
        rep.tier.name(),
        rep.seed,
        batch.runs,
        batch.distinct.len(),
        by_key.len(),
        batch.wall_s,
        path.display()
    );
    if batch.runs > 0 && batch.degenerate == batch.runs {
        eprintln!("harness error: every run was degenerate");
        return 2;
    }
    exit
}
