//! hesim — deterministic simulator with fault injection for Cookieser/Rust_HE (heathcliff).
//!
//! usage: hesim <C14|C15|C16|C17|C18> [--tier quick|thorough] [--replay FILE]
//!        hesim selftest-determinism [ID...]
//! env:   VERIF_SEED=<int> (default fixed), VERIF_TIER, HESIM_WORKERS

mod c14;
mod c15;
mod c16;
mod c17;
mod c18;
mod driver;
mod gen;
mod io_fault;
mod net;
mod objs;
mod prng;
mod sched;
mod util;

use driver::Tier;

/// Re-run a replay file in a fresh process; Some(true) if it reports the violation again.
pub fn replay_fresh(path: &str) -> Option<bool> {
    let exe = std::env::current_exe().ok()?;
    let prop = std::path::Path::new(path).file_name()?.to_str()?.split('-').next()?.to_string();
    let out = std::process::Command::new(exe).arg(&prop).arg("--replay").arg(path).output().ok()?;
    Some(out.status.code() == Some(1))
}

fn seed_from_env() -> u64 {
    match std::env::var("VERIF_SEED") {
        Ok(s) if !s.trim().is_empty() => s.trim().parse::<u64>().unwrap_or_else(|_| {
            // accept negative / huge integers by hashing the text
            prng::hash_label(0, s.trim())
        }),
        _ => driver::DEFAULT_SEED,
    }
}

fn main() {
    util::install_panic_hook();
    let args: Vec<String> = std::env::args().skip(1).collect();
    if args.is_empty() {
        eprintln!("usage: hesim <ID> [--tier quick|thorough] [--replay FILE] | selftest-determinism");
        std::process::exit(2);
    }
    let mut tier = match std::env::var("VERIF_TIER").as_deref() {
        Ok("thorough") => Tier::Thorough,
        _ => Tier::Quick,
    };
    let mut replay: Option<String> = None;
    let mut pos = Vec::new();
    let mut i = 0;
    while i < args.len() {
        match args[i].as_str() {
            "--tier" => {
                i += 1;
                tier = match args.get(i).map(|s| s.as_str()) {
                    Some("quick") => Tier::Quick,
                    Some("thorough") => Tier::Thorough,
                    _ => {
                        eprintln!("bad --tier");
                        std::process::exit(2)
                    }
                };
            }
            "--replay" => {
                i += 1;
                replay = args.get(i).cloned();
                if replay.is_none() {
                    eprintln!("--replay needs a file");
                    std::process::exit(2);
                }
            }
            other => pos.push(other.to_string()),
        }
        i += 1;
    }
    let seed = seed_from_env();
    let cmd = pos[0].as_str();
    if let Some(path) = replay {
        let text = match std::fs::read_to_string(&path) {
            Ok(t) => t,
            Err(e) => {
                eprintln!("cannot read replay file {}: {}", path, e);
                std::process::exit(2);
            }
        };
        let mut doc: serde_json::Value = match serde_json::from_str(&text) {
            Ok(d) => d,
            Err(e) => {
                eprintln!("replay file is not JSON: {}", e);
                std::process::exit(2);
            }
        };
        doc["__path"] = serde_json::Value::String(path.clone());
        if doc["property"].as_str() != Some(cmd) {
            eprintln!("replay file is for property {:?}, not {}", doc["property"], cmd);
            std::process::exit(2);
        }
        let code = match cmd {
            "C14" => c14::replay(&doc),
            "C15" => c15::replay(&doc),
            "C16" => c16::replay(&doc),
            "C17" => c17::replay(&doc),
            "C18" => c18::replay(&doc),
            _ => {
                eprintln!("unknown property {}", cmd);
                2
            }
        };
        std::process::exit(code);
    }
    println!("VERIF_SEED={} tier={} workers={}", seed, tier.name(), driver::workers());
    let code = match cmd {
        "C14" => c14::run(tier, seed),
        "C15" => c15::run(tier, seed),
        "C16" => c16::run(tier, seed),
        "C17" => c17::run(tier, seed),
        "C18" => c18::run(tier, seed),
        _ => {
            eprintln!("unknown command {}", cmd);
            2
        }
    };
    std::process::exit(code);
}
