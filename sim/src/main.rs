//! hesim — deterministic simulator with fault injection for Cookieser/Rust_HE (heathcliff).
//!
//! usage: hesim <C14|C15|C16|C17|C18> [--tier quick|thorough] [--replay FILE]
//!        hesim selftest-determinism [ID...]
//! env:   VERIF_SEED=<int> (default fixed), VERIF_TIER, HESIM_WORKERS

mod c14;
mod c15;
mod c16;
mod c17;
mod c18;
mod driver;
mod gen;
mod io_fault;
mod net;
mod objs;
mod prng;
mod rnsp;
mod sched;
mod util;

use driver::Tier;

/// Re-run a replay file in a fresh process; Some(true) if it reports the violation again.
pub fn replay_fresh(path: &str) -> Option<bool> {
    let exe = std::env::current_exe().ok()?;
    let prop = std::path::Path::new(path).file_name()?.to_str()?.split('-').next()?.to_string();
    let out = std::process::Command::new(exe).arg(&prop).arg("--replay").arg(path).output().ok()?;
    Some(out.status.code() == Some(1))
}

fn child(cmd: &str, tier: Tier, only: Option<usize>) -> std::io::Result<std::process::Child> {
    let exe = std::env::current_exe()?;
    let mut c = std::process::Command::new(exe);
    c.arg(cmd).arg("--tier").arg(tier.name()).env("HESIM_CHILD", "1");
    if let Some(i) = only {
        c.env("HESIM_ONLY_RUN", i.to_string());
    }
    c.spawn()
}

fn normal(code: Option<i32>) -> bool {
    matches!(code, Some(0) | Some(1) | Some(2))
}

fn supervise(cmd: &str, tier: Tier, seed: u64) -> i32 {
    let mut ch = match child(cmd, tier, None) {
        Ok(c) => c,
        Err(e) => {
            eprintln!("harness error: cannot start the batch process: {}", e);
            return 2;
        }
    };
    let pid = ch.id();
    // wall-clock guard: a batch that runs far beyond its budget is a harness error, not a hang
    let limit = std::time::Duration::from_secs(
        std::env::var("HESIM_TIME_LIMIT_S").ok().and_then(|s| s.parse().ok()).unwrap_or(if tier == Tier::Quick { 1500 } else { 6 * 3600 }),
    );
    let t0 = std::time::Instant::now();
    let status = loop {
        match ch.try_wait() {
            Ok(Some(st)) => break Some(st),
            Ok(None) => {
                if t0.elapsed() > limit {
                    let _ = ch.kill();
                    let _ = ch.wait();
                    // violations found before the guard fired were left on disk by the workers
                    let found = std::fs::read_to_string(driver::inflight_dir(pid).join("found.jsonl")).unwrap_or_default();
                    let _ = std::fs::remove_dir_all(driver::inflight_dir(pid));
                    let mut seen = std::collections::BTreeSet::new();
                    for line in found.lines() {
                        let Ok(d) = serde_json::from_str::<serde_json::Value>(line) else { continue };
                        let key = d["key"].as_str().unwrap_or("?").to_string();
                        if !seen.insert(key.clone()) || seen.len() > 12 {
                            continue;
                        }
                        let v = driver::Violation { key, class: d["class"].as_str().unwrap_or("?").into(), detail: d["detail"].as_str().unwrap_or("").into(), replay: d["replay"].clone() };
                        let path = driver::write_replay(cmd, seed, d["run"].as_u64().unwrap_or(0) as usize, &v);
                        println!("VIOLATION property={} replay={}", cmd, path);
                        println!("  key={} class={} (reported by the supervisor: the batch exceeded its wall-clock limit of {} s) {}", v.key, v.class, limit.as_secs(), v.detail);
                    }
                    if !seen.is_empty() {
                        return 1;
                    }
                    eprintln!("harness error: {} {} exceeded its wall-clock limit of {} s and was stopped", cmd, tier.name(), limit.as_secs());
                    return 2;
                }
                std::thread::sleep(std::time::Duration::from_millis(50));
            }
            Err(_) => break None,
        }
    };
    let code = status.and_then(|s| s.code());
    if normal(code) {
        let _ = std::fs::remove_dir_all(driver::inflight_dir(pid));
        return code.unwrap();
    }
    eprintln!("the batch process terminated abnormally ({:?}); isolating the runs that were in flight", status);
    let dir = driver::inflight_dir(pid);
    let mut inflight: Vec<usize> = std::fs::read_dir(&dir)
        .map(|d| d.filter_map(|e| e.ok()).filter_map(|e| std::fs::read_to_string(e.path()).ok()).filter_map(|t| t.trim().parse().ok()).collect())
        .unwrap_or_default();
    inflight.sort();
    inflight.dedup();
    let _ = std::fs::remove_dir_all(&dir);
    let mut found = false;
    for i in inflight {
        let Ok(mut c) = child(cmd, tier, Some(i)) else { continue };
        let cpid = c.id();
        let st = c.wait().ok();
        let cc = st.and_then(|s| s.code());
        let _ = std::fs::remove_dir_all(driver::inflight_dir(cpid));
        if !normal(cc) {
            let v = driver::Violation {
                key: "process-abort".into(),
                class: "process-abort".into(),
                detail: format!("run {} of the {} tier (VERIF_SEED={}) terminates the whole process ({:?}): an abort that cannot be caught, e.g. an allocation request of absurd size or a stack overflow while handling this case", i, tier.name(), seed, st),
                replay: serde_json::json!({"abort_run": i, "tier": tier.name()}),
            };
            let path = driver::write_replay(cmd, seed, i, &v);
            println!("VIOLATION property={} replay={}", cmd, path);
            println!("  key={} class={} {}", v.key, v.class, v.detail);
            found = true;
        } else if cc == Some(1) {
            found = true; // the isolated run reported its own violation
        }
    }
    if found {
        1
    } else {
        eprintln!("harness error: the batch process died but no single in-flight run reproduces it");
        2
    }
}

fn seed_from_env() -> u64 {
    match std::env::var("VERIF_SEED") {
        Ok(s) if !s.trim().is_empty() => s.trim().parse::<u64>().unwrap_or_else(|_| {
            // accept negative / huge integers by hashing the text
            prng::hash_label(0, s.trim())
        }),
        _ => driver::DEFAULT_SEED,
    }
}

fn main() {
    util::install_panic_hook();
    let args: Vec<String> = std::env::args().skip(1).collect();
    if args.is_empty() {
        eprintln!("usage: hesim <ID> [--tier quick|thorough] [--replay FILE] | selftest-determinism");
        std::process::exit(2);
    }
    let mut tier = match std::env::var("VERIF_TIER").as_deref() {
        Ok("thorough") => Tier::Thorough,
        _ => Tier::Quick,
    };
    let mut replay: Option<String> = None;
    let mut pos = Vec::new();
    let mut i = 0;
    while i < args.len() {
        match args[i].as_str() {
            "--tier" => {
                i += 1;
                tier = match args.get(i).map(|s| s.as_str()) {
                    Some("quick") => Tier::Quick,
                    Some("thorough") => Tier::Thorough,
                    _ => {
                        eprintln!("bad --tier");
                        std::process::exit(2)
                    }
                };
            }
            "--replay" => {
                i += 1;
                replay = args.get(i).cloned();
                if replay.is_none() {
                    eprintln!("--replay needs a file");
                    std::process::exit(2);
                }
            }
            other => pos.push(other.to_string()),
        }
        i += 1;
    }
    let seed = seed_from_env();
    let cmd = pos[0].as_str();
    if let Some(path) = replay {
        let text = match std::fs::read_to_string(&path) {
            Ok(t) => t,
            Err(e) => {
                eprintln!("cannot read replay file {}: {}", path, e);
                std::process::exit(2);
            }
        };
        let mut doc: serde_json::Value = match serde_json::from_str(&text) {
            Ok(d) => d,
            Err(e) => {
                eprintln!("replay file is not JSON: {}", e);
                std::process::exit(2);
            }
        };
        doc["__path"] = serde_json::Value::String(path.clone());
        if doc["property"].as_str() != Some(cmd) {
            eprintln!("replay file is for property {:?}, not {}", doc["property"], cmd);
            std::process::exit(2);
        }
        if let Some(i) = doc["replay"]["abort_run"].as_u64() {
            let t = if doc["replay"]["tier"].as_str() == Some("thorough") { Tier::Thorough } else { Tier::Quick };
            std::env::set_var("VERIF_SEED", doc["verif_seed"].as_u64().unwrap_or(seed).to_string());
            let st = child(cmd, t, Some(i as usize)).and_then(|mut c| c.wait()).ok();
            let cc = st.and_then(|s| s.code());
            if !normal(cc) {
                println!("VIOLATION property={} replay={}", cmd, path);
                println!("  class=process-abort the run terminates the whole process again ({:?})", st);
                std::process::exit(1);
            }
            std::process::exit(cc.unwrap_or(2));
        }
        let code = match cmd {
            "C14" => c14::replay(&doc),
            "C15" => c15::replay(&doc),
            "C16" => c16::replay(&doc),
            "C17" => c17::replay(&doc),
            "C18" => c18::replay(&doc),
            _ => {
                eprintln!("unknown property {}", cmd);
                2
            }
        };
        // A violation that depends on what the same run did earlier (state the code under test keeps
        // between calls) may not show when its case is executed alone: fall back to re-executing the
        // recorded run as a whole, in a child process.
        if code == 0 {
            if let (Some(i), Some(t)) = (doc["run"].as_u64(), doc["tier"].as_str()) {
                let t = if t == "thorough" { Tier::Thorough } else { Tier::Quick };
                std::env::set_var("VERIF_SEED", doc["verif_seed"].as_u64().unwrap_or(seed).to_string());
                let st = child(cmd, t, Some(i as usize)).and_then(|mut c| c.wait()).ok();
                if st.and_then(|s| s.code()) == Some(1) {
                    println!("VIOLATION property={} replay={}", cmd, path);
                    println!("  the recorded case alone did not fail; re-executing run {} of the {} tier as a whole found the violation again", i, t.name());
                    std::process::exit(1);
                }
            }
        }
        std::process::exit(code);
    }
    // Supervisor: the batch itself runs in a child process. If the child dies abnormally (an
    // allocation of 2^61 bytes after a misframed stream aborts the process, it does not unwind), the
    // runs that were in flight are re-executed one by one in further children; the one that kills
    // its process again is reported as a violation with a replay file.
    if std::env::var("HESIM_CHILD").is_err() && matches!(cmd, "C14" | "C15" | "C16" | "C17" | "C18") {
        std::process::exit(supervise(cmd, tier, seed));
    }
    std::env::set_var("VERIF_TIER_EFFECTIVE", tier.name());
    println!("VERIF_SEED={} tier={} workers={}", seed, tier.name(), driver::workers());
    let code = match cmd {
        "C14" => c14::run(tier, seed),
        "C15" => c15::run(tier, seed),
        "C16" => c16::run(tier, seed),
        "C17" => c17::run(tier, seed),
        "C18" => c18::run(tier, seed),
        _ => {
            eprintln!("unknown command {}", cmd);
            2
        }
    };
    std::process::exit(code);
}
