//! Seeded generation of parameter sets, contexts ("worlds"), plaintexts and ciphertexts,
//! plus the deterministic entropy provider installed through the verif_hooks seam.

use crate::prng::{self, Prng};
use crate::util::catch_res;
use heathcliff::verif_hooks::{self, Hooks, SchedEvent};
use heathcliff::*;
use num_complex::Complex;
use serde_json::{json, Value};
use std::sync::atomic::{AtomicU64, Ordering};
use std::sync::Arc;

// ---------------------------------------------------------------------------------------
// Entropy provider (S3 seam)

/// Hands out 64-byte seeds H(seed, counter): distinct per draw, reproducible per run.
pub struct EntropyHook {
    seed: u64,
    counter: AtomicU64,
}

impl EntropyHook {
    pub fn new(seed: u64) -> Arc<Self> {
        Arc::new(EntropyHook { seed, counter: AtomicU64::new(0) })
    }
    pub fn draws(&self) -> u64 {
        self.counter.load(Ordering::SeqCst)
    }
    pub fn seed_for(seed: u64, n: u64) -> [u8; 64] {
        let mut p = Prng::new(prng::mix(seed, n, 0xE57));
        p.bytes64()
    }
}

impl Hooks for EntropyHook {
    fn sched(&self, _e: SchedEvent) {}
    fn entropy(&self) -> Option<[u8; 64]> {
        let n = self.counter.fetch_add(1, Ordering::SeqCst);
        Some(Self::seed_for(self.seed, n))
    }
}

thread_local! {
    static CURRENT_HOOKS: std::cell::RefCell<Option<Arc<dyn Hooks>>> = const { std::cell::RefCell::new(None) };
}

/// Install hooks on this thread and return the previously installed ones (the library's
/// thread-local is write-only, so the simulator tracks what it installed).
pub fn set_hooks(h: Option<Arc<dyn Hooks>>) -> Option<Arc<dyn Hooks>> {
    let prev = CURRENT_HOOKS.with(|c| c.replace(h.clone()));
    verif_hooks::install(h);
    prev
}

struct RestoreHooks(Option<Option<Arc<dyn Hooks>>>);
impl Drop for RestoreHooks {
    fn drop(&mut self) {
        if let Some(prev) = self.0.take() {
            set_hooks(prev);
        }
    }
}

/// Run `f` with a deterministic entropy provider installed on this thread; whatever was
/// installed before (e.g. a simulated thread's scheduler hooks) is restored afterwards,
/// also when `f` unwinds.
pub fn with_entropy<R>(seed: u64, f: impl FnOnce(&Arc<EntropyHook>) -> R) -> R {
    let h = EntropyHook::new(seed);
    let _restore = RestoreHooks(Some(set_hooks(Some(h.clone()))));
    f(&h)
}

// ---------------------------------------------------------------------------------------
// Primes

fn mulmod(a: u64, b: u64, m: u64) -> u64 {
    ((a as u128 * b as u128) % m as u128) as u64
}
fn powmod(mut a: u64, mut e: u64, m: u64) -> u64 {
    let mut r = 1u64;
    a %= m;
    while e > 0 {
        if e & 1 == 1 {
            r = mulmod(r, a, m);
        }
        a = mulmod(a, a, m);
        e >>= 1;
    }
    r
}
/// Deterministic Miller-Rabin for u64.
pub fn is_prime(n: u64) -> bool {
    if n < 2 {
        return false;
    }
    for p in [2u64, 3, 5, 7, 11, 13, 17, 19, 23, 29, 31, 37] {
        if n % p == 0 {
            return n == p;
        }
    }
    let mut d = n - 1;
    let mut r = 0;
    while d % 2 == 0 {
        d /= 2;
        r += 1;
    }
    'outer: for a in [2u64, 3, 5, 7, 11, 13, 17, 19, 23, 29, 31, 37] {
        let mut x = powmod(a, d, n);
        if x == 1 || x == n - 1 {
            continue;
        }
        for _ in 0..r - 1 {
            x = mulmod(x, x, n);
            if x == n - 1 {
                continue 'outer;
            }
        }
        return false;
    }
    true
}

/// A prime of exactly `bits` bits, congruent to 1 mod `factor`, not in `exclude`;
/// chosen from a PRNG-selected starting point (so different runs see different primes).
pub fn find_prime(rng: &mut Prng, factor: u64, bits: usize, exclude: &[u64]) -> Option<u64> {
    let lo = 1u64 << (bits - 1);
    let hi = if bits >= 64 { u64::MAX } else { (1u64 << bits) - 1 };
    // candidates k*factor+1 in [lo, hi]
    let kmin = (lo.saturating_sub(1) + factor - 1) / factor;
    let kmax = (hi - 1) / factor;
    if kmax < kmin {
        return None;
    }
    let span = kmax - kmin + 1;
    let start = rng.below(span);
    let limit = span.min(20000);
    for step in 0..limit {
        let k = kmin + (start + step) % span;
        if k == 0 {
            continue;
        }
        let v = k * factor + 1;
        if v < lo || v > hi {
            continue;
        }
        if !exclude.contains(&v) && is_prime(v) {
            return Some(v);
        }
    }
    None
}

// ---------------------------------------------------------------------------------------
// Parameter specs and worlds

pub const BFV: u8 = 1;
pub const CKKS: u8 = 2;
pub const BGV: u8 = 3;

pub fn scheme_of(code: u8) -> SchemeType {
    match code {
        BFV => SchemeType::BFV,
        CKKS => SchemeType::CKKS,
        BGV => SchemeType::BGV,
        _ => SchemeType::None,
    }
}
pub fn scheme_name(code: u8) -> &'static str {
    match code {
        BFV => "BFV",
        CKKS => "CKKS",
        BGV => "BGV",
        _ => "none",
    }
}

/// Fully expanded parameter set (what goes into replay files).
#[derive(Clone, Debug, PartialEq)]
pub struct ParamSpec {
    pub scheme: u8,
    pub n: usize,
    pub q: Vec<u64>,
    pub t: u64,
    pub expand_chain: bool,
    /// EncryptionParameters::use_special_prime_for_encryption (data level = key level)
    pub special_enc: bool,
}

impl ParamSpec {
    pub fn to_json(&self) -> Value {
        json!({"scheme": scheme_name(self.scheme), "n": self.n, "q": self.q, "t": self.t, "expand_chain": self.expand_chain, "use_special_prime_for_encryption": self.special_enc})
    }
    pub fn from_json(v: &Value) -> Option<Self> {
        let scheme = match v["scheme"].as_str()? {
            "BFV" => BFV,
            "CKKS" => CKKS,
            "BGV" => BGV,
            _ => return None,
        };
        Some(ParamSpec {
            scheme,
            n: v["n"].as_u64()? as usize,
            q: v["q"].as_array()?.iter().map(|x| x.as_u64()).collect::<Option<Vec<_>>>()?,
            t: v["t"].as_u64()?,
            expand_chain: v["expand_chain"].as_bool().unwrap_or(true),
            special_enc: v["use_special_prime_for_encryption"].as_bool().unwrap_or(false),
        })
    }
    pub fn qbits(&self) -> Vec<usize> {
        self.q.iter().map(|&x| 64 - x.leading_zeros() as usize).collect()
    }
    pub fn tbits(&self) -> usize {
        64 - self.t.leading_zeros() as usize
    }
    /// Class string for distinct counting: scheme, N, byte widths per residue, #primes.
    pub fn class(&self) -> String {
        let widths: Vec<String> = self.qbits().iter().map(|b| ((b + 7) / 8).to_string()).collect();
        format!("{}/N{}/w{}{}", scheme_name(self.scheme), self.n, widths.join("."), if self.special_enc { "/special-enc" } else { "" })
    }
    pub fn parms(&self) -> EncryptionParameters {
        let q: Vec<Modulus> = self.q.iter().map(|&v| Modulus::new(v)).collect();
        let p = EncryptionParameters::new(scheme_of(self.scheme)).set_poly_modulus_degree(self.n).set_coeff_modulus(&q);
        let p = if self.special_enc { p.set_use_special_prime_for_encryption(true) } else { p };
        if self.scheme == CKKS {
            p
        } else {
            p.set_plain_modulus(&Modulus::new(self.t))
        }
    }
}

/// Knobs for drawing a parameter set.
#[derive(Clone, Debug)]
pub struct SpecOpts {
    pub schemes: Vec<u8>,
    pub ns: Vec<usize>,
    pub min_primes: usize,
    pub max_primes: usize,
    /// candidate bit sizes for coefficient primes
    pub qbits: Vec<usize>,
    /// candidate bit sizes for the plain modulus
    pub tbits: Vec<usize>,
    /// require t = 1 mod 2N (batching)
    pub batching: bool,
}

impl SpecOpts {
    /// Bit sizes straddling the byte boundaries, as C14/C15 want.
    pub fn serialization() -> Self {
        SpecOpts {
            schemes: vec![BFV, CKKS, BGV],
            ns: vec![8, 16, 32],
            min_primes: 1,
            max_primes: 4,
            qbits: vec![8, 9, 16, 17, 20, 24, 25, 30, 32, 33, 40, 41, 48, 49, 56, 57, 60, 12, 23, 36, 59],
            tbits: vec![6, 8, 9, 13, 16, 17, 20],
            batching: false,
        }
    }
}

pub fn draw_spec(rng: &mut Prng, o: &SpecOpts) -> Option<ParamSpec> {
    let scheme = *rng.pick(&o.schemes);
    let n = *rng.pick(&o.ns);
    let k = rng.range(o.min_primes, o.max_primes);
    let factor = 2 * n as u64;
    let mut q = Vec::new();
    for _ in 0..k {
        let mut got = None;
        for _ in 0..8 {
            let bits = *rng.pick(&o.qbits);
            if let Some(p) = find_prime(rng, factor, bits, &q) {
                got = Some(p);
                break;
            }
        }
        q.push(got?);
    }
    let t = if scheme == CKKS {
        0
    } else {
        let total_bits: usize = q.iter().map(|&x| 64 - x.leading_zeros() as usize).sum();
        let mut t = None;
        for _ in 0..16 {
            let bits = *rng.pick(&o.tbits);
            if bits + 1 >= total_bits {
                continue;
            }
            if o.batching || rng.chance(3, 4) {
                if let Some(p) = find_prime(rng, factor, bits, &q) {
                    t = Some(p);
                    break;
                }
            } else {
                // arbitrary (non-batching) plain modulus, coprime to every q (q are primes > t or not dividing it)
                // now and then an exact power of two (256, 65536: the byte width of t and of t - 1 differ)
                let cand = if rng.chance(1, 3) { 1u64 << *rng.pick(&[bits - 1, 8, 16]).min(&(total_bits.saturating_sub(3).max(2))) } else { (1u64 << (bits - 1)) + rng.below(1u64 << (bits - 1)) };
                if cand >= 2 && q.iter().all(|&p| cand % p != 0) {
                    t = Some(cand);
                    break;
                }
            }
        }
        t?
    };
    let special_enc = q.len() >= 2 && rng.chance(1, 6);
    Some(ParamSpec { scheme, n, q, t, expand_chain: true, special_enc })
}

/// One party's view: context plus the usual tools.
pub struct World {
    pub spec: ParamSpec,
    pub parms: EncryptionParameters,
    pub ctx: Arc<HeContext>,
    pub keygen: KeyGenerator,
    pub sk: SecretKey,
    pub pk: PublicKey,
    pub encryptor: Encryptor,
    pub decryptor: Decryptor,
    pub evaluator: Evaluator,
    pub batch: Option<BatchEncoder>,
    pub ckks: Option<CKKSEncoder>,
}

pub fn build_context(spec: &ParamSpec) -> Result<Arc<HeContext>, String> {
    let s = spec.clone();
    let ctx = catch_res(move || HeContext::new(s.parms(), s.expand_chain, SecurityLevel::None))?;
    if !ctx.parameters_set() {
        return Err("parameters not set".into());
    }
    Ok(ctx)
}

/// Build a full world. Must be called with an entropy provider installed for reproducibility.
pub fn build_world(spec: &ParamSpec) -> Result<World, String> {
    let ctx = build_context(spec)?;
    let spec2 = spec.clone();
    let c2 = ctx.clone();
    catch_res(move || {
        let keygen = KeyGenerator::new(c2.clone());
        let sk = keygen.secret_key().clone();
        let pk = keygen.create_public_key(false);
        let encryptor = Encryptor::new(c2.clone()).set_public_key(pk.clone()).set_secret_key(sk.clone());
        let decryptor = Decryptor::new(c2.clone(), sk.clone());
        let evaluator = Evaluator::new(c2.clone());
        let batch = if spec2.scheme != CKKS { Some(BatchEncoder::new(c2.clone())) } else { None };
        let ckks = if spec2.scheme == CKKS { Some(CKKSEncoder::new(c2.clone())) } else { None };
        World { parms: spec2.parms(), spec: spec2, ctx: c2, keygen, sk, pk, encryptor, decryptor, evaluator, batch, ckks }
    })
}

/// Draw specs until one builds (bounded).
pub fn draw_world(rng: &mut Prng, o: &SpecOpts) -> Option<World> {
    for _ in 0..40 {
        if let Some(spec) = draw_spec(rng, o) {
            if let Ok(w) = build_world(&spec) {
                return Some(w);
            }
        }
    }
    None
}

impl World {
    pub fn uses_keyswitching(&self) -> bool {
        self.ctx.using_keyswitching()
    }
    pub fn batching(&self) -> bool {
        self.spec.scheme != CKKS && self.ctx.first_context_data().unwrap().qualifiers().using_batching
    }
    /// parms_ids of the data levels, first to last.
    pub fn data_levels(&self) -> Vec<ParmsID> {
        let mut v = Vec::new();
        let mut cd = self.ctx.first_context_data();
        while let Some(c) = cd {
            v.push(*c.parms_id());
            cd = c.next_context_data();
        }
        v
    }
    pub fn level_moduli(&self, id: &ParmsID) -> Vec<u64> {
        self.ctx.get_context_data(id).unwrap().parms().coeff_modulus().iter().map(|m| m.value()).collect()
    }

    /// A random valid plaintext for encryption at the first level.
    pub fn random_plain(&self, rng: &mut Prng) -> Plaintext {
        match self.spec.scheme {
            CKKS => self.random_ckks_plain(rng, None),
            _ => {
                let mut p = Plaintext::new();
                let len = match rng.below(4) {
                    0 => 1,
                    1 => self.spec.n,
                    _ => rng.range(1, self.spec.n),
                };
                p.resize(len);
                for i in 0..len {
                    p.data_mut()[i] = rng.below(self.spec.t);
                }
                p
            }
        }
    }

    /// CKKS plaintext at a level: canonical random residues (valid for the context) with a plausible scale,
    /// or a genuinely encoded vector.
    pub fn random_ckks_plain(&self, rng: &mut Prng, level: Option<ParmsID>) -> Plaintext {
        let id = level.unwrap_or(*self.ctx.first_parms_id());
        let moduli = self.level_moduli(&id);
        let total_bits: usize = moduli.iter().map(|&x| 64 - x.leading_zeros() as usize).sum();
        if rng.coin() && total_bits > 12 {
            let enc = self.ckks.as_ref().unwrap();
            let sbits = rng.range(2, (total_bits - 8).min(40));
            let scale = (1u64 << sbits) as f64;
            let vals: Vec<Complex<f64>> = (0..enc.slot_count())
                .map(|_| Complex::new((rng.below(17) as f64) - 8.0, (rng.below(17) as f64) - 8.0))
                .collect();
            let id2 = id;
            if let Ok(p) = catch_res(|| enc.encode_c64_array_new(&vals, Some(id2), scale)) {
                return p;
            }
        }
        let mut p = Plaintext::new();
        p.resize(moduli.len() * self.spec.n);
        for (j, &m) in moduli.iter().enumerate() {
            for i in 0..self.spec.n {
                p.data_mut()[j * self.spec.n + i] = rng.below(m);
            }
        }
        p.set_parms_id(id);
        p.set_scale(rand_scale(rng, 1, 30));
        p
    }

    /// Ciphertext with canonical random residues: valid for the context, arbitrary size/level/form.
    pub fn synthetic_cipher(&self, rng: &mut Prng, size: usize, level: ParmsID, ntt: bool) -> Ciphertext {
        let moduli = self.level_moduli(&level);
        let n = self.spec.n;
        let mut data = vec![0u64; size * moduli.len() * n];
        for s in 0..size {
            for (j, &m) in moduli.iter().enumerate() {
                for i in 0..n {
                    data[(s * moduli.len() + j) * n + i] = rng.below(m);
                }
            }
        }
        let scale = if self.spec.scheme == CKKS { rand_scale(rng, 1, 80) } else { 1.0 };
        let cf = if self.spec.scheme == BGV && rng.coin() { 1 + rng.below(self.spec.t - 1) } else { 1 };
        Ciphertext::from_members(size, moduli.len(), n, data, level, scale, cf, ntt)
    }

    /// Default representation of ciphertexts for this scheme.
    pub fn default_ntt(&self) -> bool {
        self.spec.scheme != BFV
    }
}

/// A positive finite scale 2^k * (1 + f) with a full 52-bit random mantissa (what rescaling
/// produces in practice), or an exact power of two.
pub fn rand_scale(rng: &mut Prng, min_exp: usize, max_exp: usize) -> f64 {
    let k = rng.range(min_exp, max_exp) as u64;
    let frac = if rng.chance(1, 4) { 0 } else { rng.next_u64() & ((1u64 << 52) - 1) };
    f64::from_bits(((1023 + k) << 52) | frac)
}

/// Field-wise description of a ciphertext for equality checks and diagnostics.
pub fn cipher_fields(c: &Ciphertext) -> (usize, usize, usize, ParmsID, u64, bool, u64, u64) {
    (
        c.size(),
        c.coeff_modulus_size(),
        c.poly_modulus_degree(),
        *c.parms_id(),
        c.scale().to_bits(),
        c.is_ntt_form(),
        c.correction_factor(),
        crate::util::h64_u64s(c.data()),
    )
}

pub fn cipher_eq(a: &Ciphertext, b: &Ciphertext) -> bool {
    cipher_fields(a) == cipher_fields(b) && a.data() == b.data()
}

pub fn plain_eq(a: &Plaintext, b: &Plaintext) -> bool {
    a.coeff_count() == b.coeff_count()
        && a.data() == b.data()
        && a.parms_id() == b.parms_id()
        && a.scale().to_bits() == b.scale().to_bits()
}
