#!/bin/sh
# Offline build of the simulator against /repo's current working tree.
set -e
cd "$(dirname "$0")"
exec ./check build
